package main

import (
	"bufio"
	"bytes"
	"fmt"
	"io"
	"os"
	"os/exec"
	"regexp"
	"runtime"
	"runtime/debug"
	"sort"
	"strconv"
	"strings"
	"sync"
	"time"

	"github.com/tsawler/tabula"
	"github.com/tsawler/tabula/contentstream"
	"github.com/tsawler/tabula/core"
	"github.com/tsawler/tabula/font"
	"github.com/tsawler/tabula/rag"
	"github.com/tsawler/tabula/reader"
	"github.com/tsawler/tabula/resolver"
	"github.com/tsawler/tabula/xlsx"
)

// ---------- the isolated worker

// c02Entries: every public entry point that takes a file
var c02Entries = []string{"Text", "ToMarkdown", "ToMarkdown+options", "Chunks", "Document", "Fragments", "Analyze", "PageCount", "Lines", "Text+options"}

func c02Call(entry, path string) {
	switch entry {
	case "Text":
		tabula.Open(path).Text()
	case "ToMarkdown":
		tabula.Open(path).ToMarkdown()
	case "ToMarkdown+options":
		tabula.Open(path).ToMarkdownWithOptions(rag.MarkdownOptions{IncludeMetadata: true, IncludeTableOfContents: true, IncludeChunkSeparators: true, IncludePageNumbers: true, IncludeChunkIDs: true})
		tabula.Open(path).ToMarkdownWithOptions(rag.MarkdownOptions{IncludeTableOfContents: true, HeadingLevelOffset: 3, MaxHeadingLevel: 6})
		tabula.Open(path).ToMarkdownWithOptions(rag.MarkdownOptions{IncludeTableOfContents: true, HeadingLevelOffset: -2, MaxHeadingLevel: 1})
	case "Chunks":
		if cc, _, err := tabula.Open(path).Chunks(); err == nil && cc != nil {
			cc.ToMarkdownWithOptions(rag.MarkdownOptions{IncludeTableOfContents: true, IncludeMetadata: true})
			cc.ToJSONL()
			cc.ToCSV()
		}
	case "Document":
		tabula.Open(path).Document()
	case "Fragments":
		tabula.Open(path).Fragments()
	case "Analyze":
		tabula.Open(path).Analyze()
	case "PageCount":
		e := tabula.Open(path)
		e.PageCount()
		e.Close()
	case "Lines":
		tabula.Open(path).Lines()
		tabula.Open(path).Paragraphs()
		tabula.Open(path).IsCharacterLevel()
	case "Text+options":
		tabula.Open(path).ExcludeHeadersAndFooters().JoinParagraphs().Text()
		tabula.Open(path).ByColumn().Text()
		tabula.Open(path).PreserveLayout().Text()
		tabula.Open(path).Pages(1, 2).Text()
	case "objects":
		// the object-level API of the PDF reader: every object looked up, and expanded with all its references
		rd, err := reader.Open(path)
		if err != nil {
			return
		}
		defer rd.Close()
		for n := 0; n <= 24; n++ {
			rd.GetObject(n)
		}
		// one expansion per way of asking (each is bounded by the library; a job is metered as a whole)
		if t := rd.Trailer(); t != nil {
			rd.ResolveDeep(t)
		}
		rd.ResolveDeep(core.IndirectRef{Number: 2})
		if o, err := rd.GetObject(3); err == nil {
			rd.ResolveDeep(o)
		}
		resolver.NewResolver(rd).ResolveDeep(core.IndirectRef{Number: 1})
	case "raw":
		// the parsers that take bytes
		data, err := os.ReadFile(path)
		if err != nil {
			return
		}
		p := core.NewParser(bytes.NewReader(data))
		for i := 0; i < 64; i++ {
			if _, err := p.ParseObject(); err != nil {
				break
			}
		}
		core.NewParser(bytes.NewReader(data)).ParseIndirectObject()
		contentstream.NewParser(data).Parse()
		if cm, err := font.ParseToUnicodeCMap(&core.Stream{Dict: core.Dict{}, Data: data}); err == nil && cm != nil {
			cm.LookupString(data)
		}
		tabula.FromHTMLString(string(data)).Text()
	}
}

// c02Site: the first frame of the library in a panic's stack
var c02Frame = regexp.MustCompile(`(?m)^\s+/repo/([^\s:]+):(\d+)`)
var c02Func = regexp.MustCompile(`(?m)^github\.com/tsawler/tabula[/.]?(\S+)`)

func c02Site(stack string) string {
	// skip the frames of the panic itself
	if m := c02Func.FindStringSubmatch(stack); m != nil {
		f := m[1]
		if i := strings.LastIndex(f, "("); i > 0 {
			f = f[:i]
		}
		return f
	}
	if m := c02Frame.FindStringSubmatch(stack); m != nil {
		return m[1]
	}
	return "?"
}

func c02Worker() {
	debug.SetMaxStack(256 << 20)
	debug.SetGCPercent(50)
	out := bufio.NewWriter(os.Stdout)
	say := func(format string, a ...interface{}) {
		fmt.Fprintf(out, format+"\n", a...)
		out.Flush()
	}
	// memory watchdog: an allocation sized from the input shows as a heap far beyond the input
	limit := uint64(768 << 20)
	go func() {
		var ms runtime.MemStats
		for {
			time.Sleep(20 * time.Millisecond)
			runtime.ReadMemStats(&ms)
			if ms.HeapAlloc > limit || ms.StackInuse > 200<<20 {
				// where: the library function that occurs most often on the stacks
				buf := make([]byte, 4<<20)
				buf = buf[:runtime.Stack(buf, true)]
				count := map[string]int{}
				first := ""
				for _, m := range c02Func.FindAllStringSubmatch(string(buf), -1) {
					f := m[1]
					if i := strings.LastIndex(f, "("); i > 0 {
						f = f[:i]
					}
					if first == "" {
						first = f
					}
					count[f]++
				}
				best := first
				for f, n := range count {
					if n > count[best]+2 {
						best = f
					}
				}
				say("MEMORY heap=%d stack=%d\t%s", ms.HeapAlloc, ms.StackInuse, best)
				os.Exit(3)
			}
		}
	}()
	in := bufio.NewScanner(os.Stdin)
	in.Buffer(make([]byte, 1<<20), 1<<20)
	for in.Scan() {
		parts := strings.SplitN(in.Text(), "\t", 3)
		if len(parts) != 3 {
			continue
		}
		id, entry, path := parts[0], parts[1], parts[2]
		say("BEGIN %s", id)
		var before, after runtime.MemStats
		runtime.GC()
		runtime.ReadMemStats(&before)
		func() {
			defer func() {
				if p := recover(); p != nil {
					msg := fmt.Sprint(p)
					if len(msg) > 120 {
						msg = msg[:120]
					}
					say("PANIC %s\t%s\t%s", id, c02Site(string(debug.Stack())), strings.ReplaceAll(msg, "\n", " "))
				}
			}()
			c02Call(entry, path)
		}()
		runtime.ReadMemStats(&after)
		if after.TotalAlloc-before.TotalAlloc > limit {
			say("MEMORY allocated=%d", after.TotalAlloc-before.TotalAlloc)
		}
		say("END %s", id)
	}
}

// ---------- the parent side

type c02Job struct {
	id    int
	entry string
	path  string
	desc  string
	kind  string // format:fault
}

type c02Result struct {
	job     c02Job
	outcome string // ok, panic, hang, memory, abort
	site    string
	detail  string
}

type c02Proc struct {
	cmd   *exec.Cmd
	in    io.WriteCloser
	lines chan string
}

func c02Start() *c02Proc {
	cmd := exec.Command(os.Args[0], "c02worker")
	cmd.Env = append(os.Environ(), "GOMEMLIMIT=1GiB", "GOTRACEBACK=single")
	in, _ := cmd.StdinPipe()
	outp, _ := cmd.StdoutPipe()
	var errb bytes.Buffer
	cmd.Stderr = &limitedWriter{b: &errb, n: 1 << 16}
	if err := cmd.Start(); err != nil {
		panic(err)
	}
	p := &c02Proc{cmd: cmd, in: in, lines: make(chan string, 64)}
	go func() {
		sc := bufio.NewScanner(outp)
		sc.Buffer(make([]byte, 1<<20), 1<<20)
		for sc.Scan() {
			p.lines <- sc.Text()
		}
		cmd.Wait()
		// what the runtime said when it died (fatal errors go to stderr)
		s := errb.String()
		first := ""
		for _, l := range strings.Split(s, "\n") {
			if strings.HasPrefix(l, "fatal error:") || strings.HasPrefix(l, "runtime:") || strings.HasPrefix(l, "panic:") {
				first = l
				break
			}
		}
		site := c02Site(s)
		p.lines <- "DEAD " + site + "\t" + first
		close(p.lines)
	}()
	return p
}

type limitedWriter struct {
	b *bytes.Buffer
	n int
}

func (w *limitedWriter) Write(p []byte) (int, error) {
	if w.b.Len() < w.n {
		k := w.n - w.b.Len()
		if k > len(p) {
			k = len(p)
		}
		w.b.Write(p[:k])
	}
	return len(p), nil
}

// c02RunJobs: every job in an isolated worker process under a deadline; a worker that dies or hangs is replaced
func c02RunJobs(jobs []c02Job, workers int, deadline time.Duration) []c02Result {
	results := make([]c02Result, len(jobs))
	var mu sync.Mutex
	next := 0
	take := func() int {
		mu.Lock()
		defer mu.Unlock()
		if next >= len(jobs) {
			return -1
		}
		next++
		return next - 1
	}
	var wg sync.WaitGroup
	for w := 0; w < workers; w++ {
		wg.Add(1)
		go func() {
			defer wg.Done()
			var p *c02Proc
			for {
				i := take()
				if i < 0 {
					break
				}
				if p == nil {
					p = c02Start()
				}
				j := jobs[i]
				res := c02Result{job: j, outcome: "ok"}
				fmt.Fprintf(p.in, "%d\t%s\t%s\n", j.id, j.entry, j.path)
				timer := time.NewTimer(deadline)
				done := false
				for !done {
					select {
					case l, ok := <-p.lines:
						if !ok {
							if res.outcome == "ok" {
								res.outcome = "abort"
							}
							p = nil
							done = true
							break
						}
						switch {
						case strings.HasPrefix(l, "END "):
							done = true
						case strings.HasPrefix(l, "PANIC "):
							f := strings.SplitN(l, "\t", 3)
							res.outcome = "panic"
							if len(f) == 3 {
								res.site, res.detail = f[1], f[2]
							}
						case strings.HasPrefix(l, "MEMORY"):
							res.outcome, res.detail = "memory", l
							if f := strings.SplitN(l, "\t", 2); len(f) == 2 {
								res.detail, res.site = f[0], f[1]
							}
						case strings.HasPrefix(l, "DEAD "):
							f := strings.SplitN(l[5:], "\t", 2)
							if res.outcome == "ok" {
								res.outcome = "abort"
							}
							if res.site == "" {
								res.site = f[0]
							}
							if len(f) == 2 && res.detail == "" {
								res.detail = f[1]
							}
						}
					case <-timer.C:
						res.outcome = "hang"
						p.cmd.Process.Kill()
						for range p.lines {
						}
						p = nil
						done = true
					}
				}
				timer.Stop()
				results[i] = res
			}
			if p != nil {
				p.in.Close()
				for range p.lines {
				}
			}
		}()
	}
	wg.Wait()
	return results
}

// ---------- faults

var c02Int = regexp.MustCompile(`-?\b\d+\b`)
var c02RefRe = regexp.MustCompile(`\b(\d+) 0 R\b`)
var c02ObjRe = regexp.MustCompile(`(?s)\b\d+ 0 obj\b.*?\bendobj\b`)

type c02Fault struct {
	name string
	data []byte
}

var c02Numbers = []string{"0", "-1", "2147483648", "9223372036854775807", "4294967295", "65536"}

// faults on the text of a PDF file
func c02PDFFaults(rng *RNG, pdf []byte, n int) []c02Fault {
	var out []c02Fault
	s := string(pdf)
	add := func(name string, d string) { out = append(out, c02Fault{name, []byte(d)}) }
	for k := 0; k < n; k++ {
		switch rng.Intn(9) {
		case 0: // truncate at a token boundary
			idx := regexp.MustCompile(`\s+`).FindAllStringIndex(s, -1)
			if len(idx) > 0 {
				add("truncate", s[:idx[rng.Intn(len(idx))][0]])
			}
		case 1: // a numeric field
			idx := c02Int.FindAllStringIndex(s, -1)
			if len(idx) > 0 {
				m := idx[rng.Intn(len(idx))]
				add("number", s[:m[0]]+c02Numbers[rng.Intn(len(c02Numbers))]+s[m[1]:])
			}
		case 2: // retarget a reference: to another object, to the object that holds it, to object 0
			idx := c02RefRe.FindAllStringSubmatchIndex(s, -1)
			objs := regexp.MustCompile(`\b(\d+) 0 obj\b`).FindAllStringSubmatchIndex(s, -1)
			if len(idx) > 0 && len(objs) > 0 {
				m := idx[rng.Intn(len(idx))]
				target := "0"
				switch rng.Intn(3) {
				case 0:
					o := objs[rng.Intn(len(objs))]
					target = s[o[2]:o[3]]
				case 1:
					// the object that holds the reference
					for _, o := range objs {
						if o[0] < m[0] {
							target = s[o[2]:o[3]]
						}
					}
				}
				add("retarget", s[:m[2]]+target+s[m[3]:])
			}
		case 3: // drop or duplicate an object
			idx := c02ObjRe.FindAllStringIndex(s, -1)
			if len(idx) > 0 {
				m := idx[rng.Intn(len(idx))]
				if rng.Bool() {
					add("drop-object", s[:m[0]]+s[m[1]:])
				} else {
					add("duplicate-object", s[:m[1]]+"\n"+s[m[0]:m[1]]+s[m[1]:])
				}
			}
		case 4: // unbalance a delimiter
			idx := regexp.MustCompile(`<<|>>|\[|\]|\(|\)|<|>`).FindAllStringIndex(s, -1)
			if len(idx) > 0 {
				m := idx[rng.Intn(len(idx))]
				if rng.Bool() {
					add("delete-delimiter", s[:m[0]]+s[m[1]:])
				} else {
					add("double-delimiter", s[:m[1]]+s[m[0]:m[1]]+s[m[1]:])
				}
			}
		case 5: // corrupt stream data
			idx := regexp.MustCompile(`(?s)stream\r?\n.*?endstream`).FindAllStringIndex(s, -1)
			if len(idx) > 0 {
				m := idx[rng.Intn(len(idx))]
				b := []byte(s)
				for c := rng.Range(1, 4); c > 0 && m[1]-m[0] > 20; c-- {
					b[m[0]+8+rng.Intn(m[1]-m[0]-18)] ^= byte(1 << uint(rng.Intn(8)))
				}
				out = append(out, c02Fault{"corrupt-stream", b})
			}
		case 6: // byte noise
			b := append([]byte{}, pdf...)
			for c := rng.Range(1, 6); c > 0; c-- {
				switch rng.Intn(3) {
				case 0:
					b[rng.Intn(len(b))] = byte(rng.Intn(256))
				case 1:
					i := rng.Intn(len(b))
					b = append(b[:i], b[i+1:]...)
				case 2:
					i := rng.Intn(len(b))
					b = append(b[:i], append([]byte{byte(rng.Intn(256))}, b[i:]...)...)
				}
			}
			out = append(out, c02Fault{"bytes", b})
		case 7: // a keyword replaced
			kws := []string{"/Kids", "/Count", "/Prev", "/Length", "/Parent", "/Contents", "/Filter", "/W", "/Index", "/First", "/N", "/Size", "/Root", "/Type", "/Columns", "/Predictor", "/Font", "/Resources", "/ToUnicode", "/DescendantFonts"}
			kw := kws[rng.Intn(len(kws))]
			if i := strings.Index(s, kw); i >= 0 {
				all := regexp.MustCompile(regexp.QuoteMeta(kw)+`\b`).FindAllStringIndex(s, -1)
				if len(all) > 0 {
					m := all[rng.Intn(len(all))]
					repl := kws[rng.Intn(len(kws))]
					add("swap-key", s[:m[0]]+repl+s[m[1]:])
				}
			}
		case 8: // a value replaced by another kind of value
			idx := regexp.MustCompile(`/(Kids|Count|Prev|Length|Contents|W|Index|First|N|Size|Columns|MediaBox|Font|Resources|Filter|DecodeParms|Parent)\s+(\[[^\]]*\]|\d+ 0 R|-?\d+|/\w+)`).FindAllStringSubmatchIndex(s, -1)
			if len(idx) > 0 {
				m := idx[rng.Intn(len(idx))]
				vals := []string{"null", "[]", "<< >>", "(x)", "/Name", "true", "1.5", "[1 0 R 1 0 R]", "-7", "[[[[]]]]", "<< /Kids [1 0 R] /Type /Pages /Count 1 >>"}
				add("wrong-type", s[:m[4]]+vals[rng.Intn(len(vals))]+s[m[5]:])
			}
		}
	}
	return out
}

// faults on a ZIP container: members dropped, duplicated, truncated, numbers and tags damaged, raw zip bytes damaged
func c02ZipFaults(rng *RNG, members []zipMember, n int) []c02Fault {
	var out []c02Fault
	clone := func() []zipMember {
		c := make([]zipMember, len(members))
		for i, m := range members {
			c[i] = zipMember{Name: m.Name, Data: append([]byte{}, m.Data...)}
		}
		return c
	}
	attrNum := regexp.MustCompile(`="(-?\d+)"|>(-?\d+)<`)
	tag := regexp.MustCompile(`<[^>]+>`)
	for k := 0; k < n; k++ {
		ms := clone()
		i := rng.Intn(len(ms))
		switch rng.Intn(8) {
		case 0:
			out = append(out, c02Fault{"drop-member", writeZip(append(ms[:i], ms[i+1:]...))})
		case 1:
			out = append(out, c02Fault{"duplicate-member", writeZip(append(ms, ms[i]))})
		case 2:
			if len(ms[i].Data) > 2 {
				ms[i].Data = ms[i].Data[:rng.Intn(len(ms[i].Data))]
				out = append(out, c02Fault{"truncate-member", writeZip(ms)})
			}
		case 3:
			idx := attrNum.FindAllSubmatchIndex(ms[i].Data, -1)
			if len(idx) > 0 {
				m := idx[rng.Intn(len(idx))]
				a, b := m[2], m[3]
				if a < 0 {
					a, b = m[4], m[5]
				}
				ms[i].Data = []byte(string(ms[i].Data[:a]) + c02Numbers[rng.Intn(len(c02Numbers))] + string(ms[i].Data[b:]))
				out = append(out, c02Fault{"number", writeZip(ms)})
			}
		case 4:
			idx := tag.FindAllIndex(ms[i].Data, -1)
			if len(idx) > 0 {
				m := idx[rng.Intn(len(idx))]
				if rng.Bool() {
					ms[i].Data = append(append([]byte{}, ms[i].Data[:m[0]]...), ms[i].Data[m[1]:]...)
				} else {
					d := append([]byte{}, ms[i].Data[:m[1]]...)
					d = append(d, ms[i].Data[m[0]:m[1]]...)
					ms[i].Data = append(d, ms[i].Data[m[1]:]...)
				}
				out = append(out, c02Fault{"unbalance-tag", writeZip(ms)})
			}
		case 5:
			z := writeZip(ms)
			for c := rng.Range(1, 6); c > 0; c-- {
				z[rng.Intn(len(z))] ^= byte(1 << uint(rng.Intn(8)))
			}
			out = append(out, c02Fault{"zip-bytes", z})
		case 6:
			z := writeZip(ms)
			out = append(out, c02Fault{"truncate-zip", z[:rng.Intn(len(z))]})
		case 7:
			// a repeat / span attribute with a hostile count
			s := string(ms[i].Data)
			repl := []string{
				`table:number-columns-repeated="2147483647"`, `table:number-rows-repeated="2147483647"`, `text:c="2147483647"`,
				`<w:gridSpan w:val="2147483647"/>`, `r="XFD1048576"`, `r="ZZZZZZZZ99999999999"`, `spans="1:2147483647"`,
			}[rng.Intn(7)]
			if j := strings.Index(s, "<"); j >= 0 {
				idx := tag.FindAllStringIndex(s, -1)
				m := idx[rng.Intn(len(idx))]
				t := s[m[0]:m[1]]
				if !strings.HasPrefix(t, "</") && !strings.HasPrefix(t, "<?") && strings.HasSuffix(t, ">") {
					var nt string
					if strings.HasPrefix(repl, "<") {
						nt = t + repl
					} else if strings.HasSuffix(t, "/>") {
						nt = t[:len(t)-2] + " " + repl + "/>"
					} else {
						nt = t[:len(t)-1] + " " + repl + ">"
					}
					ms[i].Data = []byte(s[:m[0]] + nt + s[m[1]:])
					out = append(out, c02Fault{"hostile-count", writeZip(ms)})
				}
			}
		}
	}
	return out
}

func c02HTMLFaults(rng *RNG, html []byte, n int) []c02Fault {
	var out []c02Fault
	s := string(html)
	tag := regexp.MustCompile(`<[^>]+>`)
	for k := 0; k < n; k++ {
		switch rng.Intn(6) {
		case 0:
			out = append(out, c02Fault{"truncate", []byte(s[:rng.Intn(len(s)+1)])})
		case 1:
			idx := tag.FindAllStringIndex(s, -1)
			if len(idx) > 0 {
				m := idx[rng.Intn(len(idx))]
				out = append(out, c02Fault{"unbalance-tag", []byte(s[:m[0]] + s[m[1]:])})
			}
		case 2:
			depth := []int{1000, 20000, 200000}[rng.Intn(3)]
			el := []string{"div", "ul><li", "blockquote", "table><tr><td", "span", "nav", "section"}[rng.Intn(7)]
			out = append(out, c02Fault{"deep-nesting", []byte("<html><body>" + strings.Repeat("<"+el+">", depth) + "x</body></html>")})
		case 3:
			num := c02Numbers[rng.Intn(len(c02Numbers))]
			out = append(out, c02Fault{"hostile-count", []byte("<html><body><table><tr><td colspan=\"" + num + "\" rowspan=\"" + num + "\">a</td><td>b</td></tr><tr><td>c</td></tr></table><ol start=\"" + num + "\"><li>x</li></ol></body></html>")})
		case 4:
			b := []byte(s)
			for c := rng.Range(1, 6); c > 0 && len(b) > 0; c-- {
				b[rng.Intn(len(b))] = byte(rng.Intn(256))
			}
			out = append(out, c02Fault{"bytes", b})
		case 5:
			out = append(out, c02Fault{"many-entities", []byte("<html><body><p>" + strings.Repeat("&amp;&#x10FFFF;&#99999999999;&bogus;", 2000) + "</p></body></html>")})
		}
	}
	return out
}

func init() {
	props["C02"] = func(r *Run, rng *RNG) {
		thorough := r.Tier == "thorough"
		r.Rule = "valid generated documents of every format (PDF in the physical layouts of C01; DOCX, ODT, XLSX, PPTX, EPUB, HTML) damaged by one or two faults of a fixed catalogue (truncate at a token boundary; a numeric field replaced by 0, -1, 2^31, 2^32-1, 2^63-1, 65536; a reference retargeted to another object, to its holder or to object 0; an object or ZIP member dropped or duplicated; a delimiter or tag deleted or doubled; stream or ZIP bytes flipped; a dictionary key swapped; a value replaced by another kind of value; hostile repeat / span counts; deep nesting) and by random byte noise; every entry point (Text, ToMarkdown, Chunks + exports, Document, Fragments, Analyze, PageCount, Lines / Paragraphs / IsCharacterLevel, Text with options; the raw-byte parsers core.Parser, contentstream.Parser, font.ParseToUnicodeCMap, FromHTMLString) runs in an isolated worker process with a 15 s deadline, a 768 MiB heap watchdog and a 256 MiB stack limit. non-trivial = damaged inputs"
		ndocs := 12
		per := 10
		if thorough {
			ndocs = 60
			per = 30
		}
		nm := 150
		if thorough {
			nm = 1500
		}
		c02ModelCases(r, rng.Fork(7), nm)
		var jobs []c02Job
		id := 0
		dist := map[string]int{}
		addInput := func(format, fault, ext string, data []byte) {
			path := tmpFile(r, ext, data)
			entries := c02Entries
			for _, e := range entries {
				jobs = append(jobs, c02Job{id: id, entry: e, path: path, kind: format + ":" + fault})
				id++
			}
			jobs = append(jobs, c02Job{id: id, entry: "raw", path: path, kind: format + ":" + fault})
			id++
			if format == "pdf" {
				jobs = append(jobs, c02Job{id: id, entry: "objects", path: path, kind: format + ":" + fault})
				id++
			}
			dist[format+":"+fault]++
		}
		words := func(n int, tag string) []string {
			var out []string
			for i := 0; i < n; i++ {
				out = append(out, fmt.Sprintf("%s paragraph %d with some words %d.", tag, i, rng.Intn(1000)))
			}
			return out
		}
		for di := 0; di < ndocs; di++ {
			// PDF: a random logical document in a random physical layout
			d := c01GenDoc(rng)
			pdf := c01Physical(rng, &d)
			addInput("pdf", "none", ".pdf", pdf)
			for _, f := range c02PDFFaults(rng, pdf, per) {
				addInput("pdf", f.name, ".pdf", f.data)
				if rng.Chance(1, 3) {
					// a second fault on top
					for _, g := range c02PDFFaults(rng, f.data, 1) {
						addInput("pdf", f.name+"+"+g.name, ".pdf", g.data)
					}
				}
			}
			if di%2 == 0 {
				zips := []struct {
					format, ext string
					ms          []zipMember
				}{
					{"docx", ".docx", mkDOCXSimple(words(rng.Range(2, 6), "D"))},
					{"odt", ".odt", mkODTSimple(words(rng.Range(2, 6), "O"))},
					{"xlsx", ".xlsx", mkXLSXSimple(words(rng.Range(2, 6), "X"))},
					{"pptx", ".pptx", mkPPTXSimple(words(rng.Range(2, 4), "P"))},
					{"epub", ".epub", mkEPUBSimple(words(rng.Range(2, 4), "E"))},
				}
				for _, z := range zips {
					addInput(z.format, "none", z.ext, writeZip(z.ms))
					for _, f := range c02ZipFaults(rng, z.ms, per/2) {
						addInput(z.format, f.name, z.ext, f.data)
					}
				}
				html := mkHTMLSimple(words(rng.Range(2, 6), "H"))
				addInput("html", "none", ".html", html)
				for _, f := range c02HTMLFaults(rng, html, per/2) {
					addInput("html", f.name, ".html", f.data)
				}
			}
		}
		for _, f := range c02Directed(rng) {
			addInput("pdf", "directed:"+f.name, ".pdf", f.data)
		}
		for _, f := range c02DirectedOther() {
			addInput(f[0].(string), f[1].(string), f[2].(string), f[3].([]byte))
		}
		chaos := 40
		if thorough {
			chaos = 400
		}
		for _, f := range c02SpanChaos(rng, chaos) {
			addInput(f[0].(string), f[1].(string), f[2].(string), f[3].([]byte))
		}
		results := c02RunJobs(jobs, 12, 15*time.Second)
		// the property on the implementation
		outcomes := map[string]int{}
		for _, res := range results {
			outcomes[res.outcome]++
			nontrivial := !strings.HasSuffix(res.job.kind, ":none")
			_ = nontrivial
			if res.outcome == "ok" {
				r.Check(true, "", "", nil)
				continue
			}
			format := strings.SplitN(res.job.kind, ":", 2)[0]
			class := fmt.Sprintf("%s:%s:%s", format, res.outcome, res.site)
			r.Check(false, class, fmt.Sprintf("%s on a %s file (%s) does not return: %s %s %s", res.job.entry, format, res.job.kind, res.outcome, res.site, res.detail), Bs(res.job.path))
		}
		var ks []string
		for k := range dist {
			ks = append(ks, k)
		}
		sort.Strings(ks)
		for _, k := range ks {
			r.Notes = append(r.Notes, fmt.Sprintf("inputs %s: %d", k, dist[k]))
		}
		r.Notes = append(r.Notes, fmt.Sprintf("outcomes: %v", outcomes))
		_ = strconv.Itoa
	}
}

// ---------- directed hostile constructs (the mechanisms the property names)

// c02RawPDF: objects 1..n with the given bodies, a classic cross-reference table
func c02RawPDF(bodies []string, trailer string) []byte {
	var b bytes.Buffer
	b.WriteString("%PDF-1.7\n")
	offs := make([]int, len(bodies)+1)
	for i, body := range bodies {
		offs[i+1] = b.Len()
		fmt.Fprintf(&b, "%d 0 obj\n%s\nendobj\n", i+1, body)
	}
	x := b.Len()
	fmt.Fprintf(&b, "xref\n0 %d\n0000000000 65535 f \n", len(bodies)+1)
	for i := 1; i <= len(bodies); i++ {
		fmt.Fprintf(&b, "%010d 00000 n \n", offs[i])
	}
	fmt.Fprintf(&b, "trailer\n<< /Size %d /Root 1 0 R %s >>\nstartxref\n%d\n%%%%EOF\n", len(bodies)+1, strings.ReplaceAll(trailer, "$XREF", fmt.Sprint(x)), x)
	return b.Bytes()
}

func c02StreamObj(dict string, data []byte) string {
	return fmt.Sprintf("<< %s /Length %d >>\nstream\n%s\nendstream", dict, len(data), data)
}

func c02Directed(rng *RNG) []c02Fault {
	var out []c02Fault
	add := func(name string, data []byte) { out = append(out, c02Fault{name, data}) }
	font := "<< /Type /Font /Subtype /Type1 /BaseFont /Helvetica >>"
	page := func(contents, extra string) string {
		return "<< /Type /Page /Parent 2 0 R /MediaBox [0 0 612 792] /Resources << /Font << /F1 4 0 R >> " + extra + " >> /Contents " + contents + " >>"
	}
	content := c02StreamObj("", []byte("BT /F1 12 Tf 72 700 Td (hello) Tj ET"))
	base := func() []string {
		return []string{"<< /Type /Catalog /Pages 2 0 R >>", "<< /Type /Pages /Kids [3 0 R] /Count 1 >>", page("5 0 R", ""), font, content}
	}
	// /Prev chains that never end
	add("prev-self", c02RawPDF(base(), "/Prev $XREF"))
	add("prev-garbage", c02RawPDF(base(), "/Prev 7"))
	add("prev-negative", c02RawPDF(base(), "/Prev -1"))
	add("prev-beyond", c02RawPDF(base(), "/Prev 99999999"))
	{
		// two sections that name each other
		a := c02RawPDF(base(), "/Prev 0000000000")
		s := string(a)
		i := strings.LastIndex(s, "xref\n")
		second := fmt.Sprintf("xref\n0 1\n0000000000 65535 f \ntrailer\n<< /Size 6 /Root 1 0 R /Prev %d >>\nstartxref\n%d\n%%%%EOF\n", i, len(a))
		// the first names the second
		s = strings.Replace(s, "/Prev 0000000000", fmt.Sprintf("/Prev %010d", len(a)), 1)
		add("prev-two-cycle", []byte(s+second))
	}
	// page trees that loop or multiply
	{
		o := base()
		o[1] = "<< /Type /Pages /Kids [2 0 R] /Count 1 >>"
		add("kids-self", c02RawPDF(o, ""))
		o = base()
		o[2] = "<< /Type /Pages /Parent 2 0 R /Kids [2 0 R 3 0 R] /Count 1 >>"
		add("kids-ancestor", c02RawPDF(o, ""))
		// a shared-subtree bomb: 12 levels, each node lists the next level ten times
		o = []string{"<< /Type /Catalog /Pages 2 0 R >>"}
		levels := 12
		for l := 0; l < levels; l++ {
			next := fmt.Sprintf("%d 0 R ", l+3)
			o = append(o, "<< /Type /Pages /Kids ["+strings.Repeat(next, 10)+"] /Count 10 >>")
		}
		o = append(o, "<< /Type /Page /MediaBox [0 0 10 10] >>")
		add("kids-shared-subtree-bomb", c02RawPDF(o, ""))
		// one page listed very often is fine for the reader but must stay linear
		o = base()
		o[1] = "<< /Type /Pages /Kids [" + strings.Repeat("3 0 R ", 6000) + "] /Count 6000 >>"
		add("kids-one-page-6000-times", c02RawPDF(o, ""))
		// deep chain of distinct nodes
		o = []string{"<< /Type /Catalog /Pages 2 0 R >>"}
		for l := 0; l < 5000; l++ {
			o = append(o, fmt.Sprintf("<< /Type /Pages /Kids [%d 0 R] /Count 1 >>", l+3))
		}
		o = append(o, "<< /Type /Page /MediaBox [0 0 10 10] >>")
		add("kids-chain-5000", c02RawPDF(o, ""))
	}
	// counts that are not there
	for _, n := range []string{"2147483647", "9223372036854775807", "-5", "1000000000"} {
		o := base()
		o[1] = "<< /Type /Pages /Kids [3 0 R] /Count " + n + " >>"
		add("count-"+n, c02RawPDF(o, ""))
	}
	// lengths
	for _, n := range []string{"2147483647", "9223372036854775807", "-1", "5 0 R", "6 0 R"} {
		o := base()
		o[4] = strings.Replace(content, "/Length 36", "/Length "+n, 1)
		o = append(o, "7 0 R", "6 0 R")
		add("length-"+strings.ReplaceAll(n, " ", ""), c02RawPDF(o, ""))
	}
	// form XObjects that invoke themselves
	{
		o := base()
		form := c02StreamObj("/Type /XObject /Subtype /Form /BBox [0 0 10 10] /Resources << /XObject << /X 6 0 R >> /Font << /F1 4 0 R >> >>", []byte(strings.Repeat("/X Do ", 12)+"BT /F1 9 Tf (x) Tj ET"))
		o[2] = page("5 0 R", "/XObject << /X 6 0 R >>")
		o[4] = c02StreamObj("", []byte("/X Do"))
		o = append(o, form)
		add("xobject-self-12-fold", c02RawPDF(o, ""))
	}
	// predictors and filter parameters
	for _, parms := range []string{
		"/Predictor 12 /Columns 0", "/Predictor 12 /Columns 2147483647", "/Predictor 12 /Columns -4", "/Predictor 2 /Columns 0",
		"/Predictor 2 /Colors 2147483647 /Columns 2147483647", "/Predictor 15 /Colors 0 /BitsPerComponent 0 /Columns 1",
		"/Predictor 12 /Colors 9223372036854775807 /BitsPerComponent 16 /Columns 9223372036854775807", "/Predictor 2 /BitsPerComponent 3 /Columns 5",
	} {
		o := base()
		o[4] = c02StreamObj("/Filter /FlateDecode /DecodeParms << "+parms+" >>", deflate([]byte("\x00BT /F1 12 Tf 72 700 Td (hello) Tj ET")))
		add("predictor:"+parms, c02RawPDF(o, ""))
	}
	// highly compressible data: 16 MiB of zeros (decompression bombs proper are not in the catalogue)
	{
		zeros := make([]byte, 1<<20)
		var inner bytes.Buffer
		for i := 0; i < 16; i++ {
			inner.Write(zeros)
		}
		d1 := deflate(inner.Bytes())
		o := base()
		o[4] = c02StreamObj("/Filter /FlateDecode", d1)
		add("flate-16MiB-of-zeros", c02RawPDF(o, ""))
	}
	// ToUnicode programs
	for name, prog := range map[string]string{
		"bfrange-whole-space":    "1 begincodespacerange <00000000> <FFFFFFFF> endcodespacerange 1 beginbfrange <00000000> <FFFFFFFF> <0041> endbfrange",
		"bfrange-backwards":      "1 begincodespacerange <00> <FF> endcodespacerange 1 beginbfrange <FF> <00> <0041> endbfrange",
		"bfrange-2-byte-full":    "1 begincodespacerange <0000> <FFFF> endcodespacerange 100 beginbfrange " + strings.Repeat("<0000> <FFFF> <0041>\n", 100) + " endbfrange",
		"bfchar-count-lies":      "2147483647 beginbfchar <01> <0041> endbfchar",
		"unterminated":           "1 beginbfrange <01> <05> [<0041> <0042>",
		"codespace-16-byte-code": "1 begincodespacerange <00000000000000000000000000000000> <FFFFFFFFFFFFFFFFFFFFFFFFFFFFFFFF> endcodespacerange 1 beginbfchar <00000000000000000000000000000001> <0041> endbfchar",
	} {
		o := base()
		o[3] = "<< /Type /Font /Subtype /Type1 /BaseFont /Helvetica /ToUnicode 6 0 R >>"
		o = append(o, c02StreamObj("", []byte(prog)))
		add("cmap:"+name, c02RawPDF(o, ""))
	}
	// fonts
	for name, f := range map[string]string{
		"widths-firstchar-negative": "<< /Type /Font /Subtype /Type1 /BaseFont /Helvetica /FirstChar -2147483648 /LastChar 2147483647 /Widths [1 2 3] >>",
		"descendant-self":           "<< /Type /Font /Subtype /Type0 /BaseFont /X /Encoding /Identity-H /DescendantFonts [4 0 R] >>",
		"descendant-empty":          "<< /Type /Font /Subtype /Type0 /BaseFont /X /Encoding /Identity-H /DescendantFonts [] >>",
		"encoding-self":             "<< /Type /Font /Subtype /Type1 /BaseFont /X /Encoding 4 0 R >>",
		"differences-huge-code":     "<< /Type /Font /Subtype /Type1 /BaseFont /X /Encoding << /Type /Encoding /Differences [2147483647 /a /b -5 /c 9223372036854775807 /d] >> >>",
		"w-array-huge":              "<< /Type /Font /Subtype /Type0 /BaseFont /X /Encoding /Identity-H /DescendantFonts [<< /Type /Font /Subtype /CIDFontType2 /BaseFont /X /CIDSystemInfo << /Registry (Adobe) /Ordering (Identity) /Supplement 0 >> /W [0 2147483647 500 -10 [1 2 3] 5 1 9] >>] >>",
	} {
		o := base()
		o[3] = f
		add("font:"+name, c02RawPDF(o, ""))
	}
	// resources that contain themselves
	{
		o := base()
		o[2] = "<< /Type /Page /Parent 2 0 R /MediaBox [0 0 612 792] /Resources 6 0 R /Contents 5 0 R >>"
		o = append(o, "<< /Font << /F1 4 0 R >> /XObject << /R 6 0 R >> /Self 6 0 R >>")
		add("resources-self", c02RawPDF(o, ""))
	}
	// cross-reference streams
	for name, d := range map[string]string{
		"w-zero":         "/W [0 0 0] /Index [0 2147483647]",
		"w-huge":         "/W [1 2147483647 1]",
		"w-negative":     "/W [1 -3 1]",
		"index-odd":      "/W [1 2 1] /Index [0 1 2]",
		"index-negative": "/W [1 2 1] /Index [-5 3]",
		"index-huge":     "/W [1 2 1] /Index [0 9223372036854775807]",
		"size-huge":      "/W [1 2 1] /Size 9223372036854775807",
	} {
		var b bytes.Buffer
		b.WriteString("%PDF-1.7\n1 0 obj\n<< /Type /Catalog /Pages 2 0 R >>\nendobj\n2 0 obj\n<< /Type /Pages /Kids [] /Count 0 >>\nendobj\n")
		x := b.Len()
		dict := "/Type /XRef /Root 1 0 R " + d
		if !strings.Contains(d, "/Size") {
			dict += " /Size 4"
		}
		fmt.Fprintf(&b, "3 0 obj\n%s\nendobj\nstartxref\n%d\n%%%%EOF\n", c02StreamObj(dict, []byte{0, 0, 0, 255, 1, 0, 9, 0, 1, 0, 60, 0, 1, 0, 120, 0}), x)
		add("xrefstream:"+name, b.Bytes())
	}
	// an object stream whose /Length is one of its own members, and one whose /Length is the stream itself
	for name, lenRef := range map[string]string{"length-inside-itself": "2 0 R", "length-is-itself": "3 0 R"} {
		var b bytes.Buffer
		b.WriteString("%PDF-1.7\n1 0 obj\n<< /Type /Catalog /Pages 5 0 R >>\nendobj\n")
		so := b.Len()
		members := "2 0 5 3 27 << /Type /Pages /Kids [] /Count 0 >>"
		fmt.Fprintf(&b, "3 0 obj\n<< /Type /ObjStm /N 2 /First 8 /Length %s >>\nstream\n%s\nendstream\nendobj\n", lenRef, members)
		x := b.Len()
		rows := []byte{0, 0, 0, 255, 1, 0, 9, 0, 2, 0, 3, 0, 1, byte(so >> 8), byte(so), 0, 1, byte(x >> 8), byte(x), 0, 2, 0, 3, 1}
		fmt.Fprintf(&b, "4 0 obj\n%s\nendobj\nstartxref\n%d\n%%%%EOF\n", c02StreamObj("/Type /XRef /Root 1 0 R /Size 6 /W [1 2 1]", rows), x)
		add("objstm:"+name, b.Bytes())
	}
	// object streams
	for name, d := range map[string]string{
		"n-huge":         "/N 2147483647 /First 10",
		"first-huge":     "/N 1 /First 2147483647",
		"first-negative": "/N 1 /First -1",
		"extends-self":   "/N 1 /First 4 /Extends 3 0 R",
	} {
		var b bytes.Buffer
		b.WriteString("%PDF-1.7\n1 0 obj\n<< /Type /Catalog /Pages 2 0 R >>\nendobj\n")
		so := b.Len()
		fmt.Fprintf(&b, "3 0 obj\n%s\nendobj\n", c02StreamObj("/Type /ObjStm "+d, []byte("2 0 << /Type /Pages /Kids [] /Count 0 >>")))
		x := b.Len()
		var rows []byte
		rows = append(rows, 0, 0, 0, 255, 1, 0, 9, 0, 2, 0, 3, 0, 1, byte(so>>8), byte(so), 0, 1, byte(x>>8), byte(x), 0)
		fmt.Fprintf(&b, "4 0 obj\n%s\nendobj\nstartxref\n%d\n%%%%EOF\n", c02StreamObj("/Type /XRef /Root 1 0 R /Size 5 /W [1 2 1]", rows), x)
		add("objstm:"+name, b.Bytes())
	}
	// filter chains whose /DecodeParms do not match the /Filter array
	hex2 := []byte(fmt.Sprintf("%X>", []byte(fmt.Sprintf("%X>", []byte("BT /F1 12 Tf 72 700 Td (hello) Tj ET")))))
	for name, d := range map[string]string{
		"parms-shorter":    "/Filter [/ASCIIHexDecode /ASCIIHexDecode] /DecodeParms [null]",
		"parms-empty":      "/Filter [/ASCIIHexDecode /ASCIIHexDecode] /DecodeParms []",
		"parms-longer":     "/Filter [/ASCIIHexDecode /ASCIIHexDecode] /DecodeParms [null null null << /Predictor 12 >>]",
		"parms-not-dicts":  "/Filter [/ASCIIHexDecode /ASCIIHexDecode] /DecodeParms [7 (x)]",
		"parms-for-a-name": "/Filter /ASCIIHexDecode /DecodeParms [null null]",
		"filter-empty":     "/Filter [] /DecodeParms [null]",
		"filter-not-names": "/Filter [7 null] /DecodeParms [null null]",
	} {
		o := base()
		o[4] = c02StreamObj(d, hex2)
		add("filters:"+name, c02RawPDF(o, ""))
	}
	// embedded TrueType programs whose table directory names tables outside the program, with offsets and
	// lengths whose sum wraps around 32 bits, and with more tables than bytes
	{
		be32 := func(v uint32) []byte { return []byte{byte(v >> 24), byte(v >> 16), byte(v >> 8), byte(v)} }
		mkFont := func(numTables uint16, recs [][3]interface{}) []byte {
			b := []byte{0, 1, 0, 0, byte(numTables >> 8), byte(numTables), 0, 16, 0, 0, 0, 16}
			for _, rc := range recs {
				b = append(b, []byte(rc[0].(string))...)
				b = append(b, 0, 0, 0, 0)
				b = append(b, be32(rc[1].(uint32))...)
				b = append(b, be32(rc[2].(uint32))...)
			}
			return append(b, make([]byte, 64)...)
		}
		tags := []string{"cmap", "head", "hhea", "hmtx", "maxp", "loca", "glyf", "name", "post", "OS/2"}
		k := 0
		for _, off := range []uint32{0xFFFFFFF0, 0xFFFFFFFF, 0x80000000, 0x7FFFFFFF, 0x10, 0} {
			for _, ln := range []uint32{0x20, 0xFFFFFFFF, 0x7FFFFFFF, 0x80000000, 0} {
				var recs [][3]interface{}
				for _, tg := range tags {
					recs = append(recs, [3]interface{}{tg, off, ln})
				}
				prog := mkFont(uint16(len(recs)), recs)
				o := base()
				o[3] = "<< /Type /Font /Subtype /TrueType /BaseFont /ABCDEF+T /FirstChar 32 /LastChar 32 /Widths [250] /FontDescriptor 6 0 R >>"
				o = append(o, "<< /Type /FontDescriptor /FontName /ABCDEF+T /Flags 4 /FontFile2 7 0 R >>", c02StreamObj("/Length1 "+fmt.Sprint(len(prog)), prog))
				add(fmt.Sprintf("truetype-directory-%d", k), c02RawPDF(o, ""))
				k++
			}
		}
		o := base()
		o[3] = "<< /Type /Font /Subtype /TrueType /BaseFont /ABCDEF+T /FontDescriptor 6 0 R >>"
		o = append(o, "<< /Type /FontDescriptor /FontName /ABCDEF+T /Flags 4 /FontFile2 7 0 R >>", c02StreamObj("", mkFont(0xFFFF, [][3]interface{}{{"cmap", uint32(12), uint32(4)}})))
		add("truetype-directory-count", c02RawPDF(o, ""))
	}
	// ToUnicode programs cut off at every third byte, and with unbalanced delimiters in every section
	{
		cm := "/CIDInit /ProcSet findresource begin 12 dict begin begincmap 1 begincodespacerange <00> <FF> endcodespacerange 2 beginbfchar <68> <0048> <65> <0045> endbfchar 2 beginbfrange <6C> <6D> <004C> <6F> <70> [<004F> <0050>] endbfrange endcmap end end"
		mk := func(prog string) []byte {
			o := base()
			o[3] = "<< /Type /Font /Subtype /TrueType /BaseFont /ABCDEF+X /FirstChar 32 /LastChar 32 /Widths [250] /ToUnicode 6 0 R >>"
			o = append(o, c02StreamObj("", []byte(prog)))
			return c02RawPDF(o, "")
		}
		for cut := 60; cut < len(cm); cut += 3 {
			add(fmt.Sprintf("tounicode-cut-%d", cut), mk(cm[:cut]))
		}
		// programs handed to the CMap parser as they are (the raw entry point): keywords that run into one another
		for name, prog := range map[string]string{
			"codespace-keywords-overlap": "begincodespacerangendcodespacerange",
			"bfrange-keywords-overlap":   "1 begincodespacerange <00> <FF> endcodespacerange beginbfrangendbfrange",
			"bfchar-keywords-adjacent":   "beginbfcharendbfchar beginbfchar endbfchar",
			"end-before-begin":           "endcodespacerange begincodespacerange endbfrange beginbfrange endbfchar beginbfchar",
		} {
			add("cmap-raw:"+name, []byte(prog))
		}
		for name, prog := range map[string]string{
			"bfrange-open-hex":     "1 begincodespacerange <00> <FF> endcodespacerange 1 beginbfrange <50> <52> <00 endbfrange",
			"bfrange-open-array":   "1 begincodespacerange <00> <FF> endcodespacerange 1 beginbfrange <50> <52> [<0041> <0042> endbfrange",
			"bfrange-close-first":  "1 begincodespacerange <00> <FF> endcodespacerange 1 beginbfrange > <50> ] <52> <0041> endbfrange",
			"bfrange-reversed":     "1 begincodespacerange <00> <FF> endcodespacerange 1 beginbfrange <52> <50> <0041> endbfrange",
			"bfrange-huge":         "1 begincodespacerange <00000000> <FFFFFFFF> endcodespacerange 1 beginbfrange <00000000> <FFFFFFFF> <0041> endbfrange",
			"bfchar-open-hex":      "1 begincodespacerange <00> <FF> endcodespacerange 1 beginbfchar <50> <00 endbfchar",
			"codespace-open-hex":   "1 begincodespacerange <00> <FF endcodespacerange",
			"sections-never-close": "1 begincodespacerange <00> <FF> 1 beginbfrange <50> <52> <0041> 1 beginbfchar <41> <0041>",
			"odd-digits":           "1 begincodespacerange <0> <FFF> endcodespacerange 1 beginbfrange <5> <52> <041> endbfrange",
		} {
			add("tounicode:"+name, mk(prog))
		}
	}
	return out
}

// directed hostile bodies for the ZIP formats and HTML: (format, name, extension, bytes)
func c02DirectedOther() [][4]interface{} {
	var out [][4]interface{}
	add := func(format, name, ext string, data []byte) {
		out = append(out, [4]interface{}{format, name, ext, data})
	}
	replaceMember := func(ms []zipMember, name string, data string) []zipMember {
		c := make([]zipMember, len(ms))
		copy(c, ms)
		for i := range c {
			if c[i].Name == name {
				c[i].Data = []byte(data)
			}
		}
		return c
	}
	// ODT
	odtHead := `<?xml version="1.0" encoding="UTF-8"?><office:document-content xmlns:office="urn:oasis:names:tc:opendocument:xmlns:office:1.0" xmlns:text="urn:oasis:names:tc:opendocument:xmlns:text:1.0" xmlns:table="urn:oasis:names:tc:opendocument:xmlns:table:1.0" office:version="1.2"><office:body><office:text>`
	odtTail := `</office:text></office:body></office:document-content>`
	for name, body := range map[string]string{
		"spaces-repeated":      `<text:p>a<text:s text:c="2147483647"/>b<text:s text:c="9223372036854775807"/><text:s text:c="-5"/></text:p>`,
		"columns-repeated":     `<table:table><table:table-column table:number-columns-repeated="2147483647"/><table:table-row><table:table-cell table:number-columns-repeated="2147483647"><text:p>x</text:p></table:table-cell></table:table-row></table:table>`,
		"rows-repeated":        `<table:table><table:table-row table:number-rows-repeated="2147483647"><table:table-cell><text:p>x</text:p></table:table-cell></table:table-row></table:table>`,
		"spans":                `<table:table><table:table-row><table:table-cell table:number-columns-spanned="2147483647" table:number-rows-spanned="2147483647"><text:p>x</text:p></table:table-cell><table:table-cell><text:p>y</text:p></table:table-cell></table:table-row><table:table-row><table:table-cell><text:p>z</text:p></table:table-cell></table:table-row></table:table>`,
		"outline-level":        `<text:h text:outline-level="2147483647">h</text:h><text:h text:outline-level="-3">h</text:h><text:h text:outline-level="x">h</text:h>`,
		"lists-nested-3000":    strings.Repeat(`<text:list><text:list-item>`, 3000) + `<text:p>deep</text:p>` + strings.Repeat(`</text:list-item></text:list>`, 3000),
		"tables-nested-2000":   strings.Repeat(`<table:table><table:table-row><table:table-cell>`, 2000) + `<text:p>deep</text:p>` + strings.Repeat(`</table:table-cell></table:table-row></table:table>`, 2000),
		"sections-nested-9000": strings.Repeat(`<text:section>`, 9000) + `<text:p>deep</text:p>` + strings.Repeat(`</text:section>`, 9000),
	} {
		add("odt", "directed:"+name, ".odt", writeZip(replaceMember(mkODTSimple([]string{"x"}), "content.xml", odtHead+body+odtTail)))
	}
	// DOCX
	docHead := `<?xml version="1.0" encoding="UTF-8" standalone="yes"?><w:document xmlns:w="http://schemas.openxmlformats.org/wordprocessingml/2006/main"><w:body>`
	docTail := `</w:body></w:document>`
	cell := func(props, text string) string {
		return `<w:tc><w:tcPr>` + props + `</w:tcPr><w:p><w:r><w:t>` + text + `</w:t></w:r></w:p></w:tc>`
	}
	for name, body := range map[string]string{
		"gridspan":           `<w:tbl><w:tr>` + cell(`<w:gridSpan w:val="2147483647"/>`, "a") + cell(`<w:gridSpan w:val="-7"/>`, "b") + cell(`<w:gridSpan w:val="9223372036854775807"/>`, "c") + `</w:tr><w:tr>` + cell("", "d") + `</w:tr></w:tbl>`,
		"vmerge-without-top": `<w:tbl><w:tr>` + cell(`<w:vMerge/>`, "a") + `</w:tr><w:tr>` + cell(`<w:vMerge/>`, "b") + cell(`<w:vMerge w:val="restart"/>`, "c") + `</w:tr></w:tbl>`,
		"list-levels":        `<w:p><w:pPr><w:numPr><w:ilvl w:val="2147483647"/><w:numId w:val="-1"/></w:numPr></w:pPr><w:r><w:t>x</w:t></w:r></w:p><w:p><w:pPr><w:numPr><w:ilvl w:val="-9"/><w:numId w:val="9223372036854775807"/></w:numPr></w:pPr><w:r><w:t>y</w:t></w:r></w:p>`,
		"heading-levels":     `<w:p><w:pPr><w:pStyle w:val="Heading99999999999999999999"/></w:pPr><w:r><w:t>x</w:t></w:r></w:p><w:p><w:pPr><w:pStyle w:val="Heading-3"/><w:outlineLvl w:val="2147483647"/></w:pPr><w:r><w:t>y</w:t></w:r></w:p>`,
		"tables-nested-2000": strings.Repeat(`<w:tbl><w:tr><w:tc>`, 2000) + `<w:p><w:r><w:t>deep</w:t></w:r></w:p>` + strings.Repeat(`</w:tc></w:tr></w:tbl>`, 2000),
		"runs-nested-9000":   `<w:p>` + strings.Repeat(`<w:smartTag>`, 9000) + `<w:r><w:t>deep</w:t></w:r>` + strings.Repeat(`</w:smartTag>`, 9000) + `</w:p>`,
		"tabs-and-breaks":    `<w:p><w:r>` + strings.Repeat(`<w:tab/><w:br/><w:cr/>`, 50000) + `</w:r></w:p>`,
	} {
		add("docx", "directed:"+name, ".docx", writeZip(replaceMember(mkDOCXSimple([]string{"x"}), "word/document.xml", docHead+body+docTail)))
	}
	// DOCX: style inheritance that loops (on the starting style, beside it, on itself)
	for name, styles := range map[string]string{
		"style-cycle-beside": `<w:style w:type="paragraph" w:styleId="Para"><w:basedOn w:val="Base"/></w:style><w:style w:type="paragraph" w:styleId="Base"><w:basedOn w:val="Mid"/></w:style><w:style w:type="paragraph" w:styleId="Mid"><w:basedOn w:val="Base"/></w:style>`,
		"style-cycle-self":   `<w:style w:type="paragraph" w:styleId="Para"><w:basedOn w:val="Loop"/></w:style><w:style w:type="paragraph" w:styleId="Loop"><w:basedOn w:val="Loop"/></w:style>`,
		"style-cycle-start":  `<w:style w:type="paragraph" w:styleId="Para"><w:basedOn w:val="B"/></w:style><w:style w:type="paragraph" w:styleId="B"><w:basedOn w:val="Para"/></w:style>`,
		"style-chain-3000": func() string {
			var b strings.Builder
			b.WriteString(`<w:style w:type="paragraph" w:styleId="Para"><w:basedOn w:val="S0"/></w:style>`)
			for i := 0; i < 3000; i++ {
				fmt.Fprintf(&b, `<w:style w:type="paragraph" w:styleId="S%d"><w:basedOn w:val="S%d"/></w:style>`, i, i+1)
			}
			return b.String()
		}(),
		"style-heading-cycle": `<w:style w:type="paragraph" w:styleId="Para"><w:basedOn w:val="Heading1"/></w:style><w:style w:type="paragraph" w:styleId="Heading1"><w:name w:val="heading 1"/><w:basedOn w:val="Heading2"/></w:style><w:style w:type="paragraph" w:styleId="Heading2"><w:name w:val="heading 2"/><w:basedOn w:val="Heading1"/></w:style>`,
	} {
		ms := mkDOCXSimple([]string{"x"})
		body := docHead + `<w:p><w:pPr><w:pStyle w:val="Para"/></w:pPr><w:r><w:t>styled paragraph</w:t></w:r></w:p><w:p><w:pPr><w:pStyle w:val="Mid"/></w:pPr><w:r><w:t>second</w:t></w:r></w:p>` + docTail
		ms = replaceMember(ms, "word/document.xml", body)
		ms = append(ms, zipMember{Name: "word/styles.xml", Data: []byte(`<?xml version="1.0" encoding="UTF-8" standalone="yes"?><w:styles xmlns:w="http://schemas.openxmlformats.org/wordprocessingml/2006/main">` + styles + `</w:styles>`)})
		ms = append(ms, zipMember{Name: "word/_rels/document.xml.rels", Data: []byte(`<?xml version="1.0" encoding="UTF-8"?><Relationships xmlns="http://schemas.openxmlformats.org/package/2006/relationships"><Relationship Id="rIdS" Type="http://schemas.openxmlformats.org/officeDocument/2006/relationships/styles" Target="styles.xml"/></Relationships>`)})
		add("docx", "directed:"+name, ".docx", writeZip(ms))
	}
	// XLSX
	sheet := func(body string) string {
		return `<?xml version="1.0" encoding="UTF-8" standalone="yes"?><worksheet xmlns="http://schemas.openxmlformats.org/spreadsheetml/2006/main">` + body + `</worksheet>`
	}
	xl := mkXLSXSimple([]string{"x"})
	sheetName := ""
	for _, m := range xl {
		if strings.Contains(m.Name, "worksheets/sheet") {
			sheetName = m.Name
		}
	}
	for name, body := range map[string]string{
		"far-cell":          `<sheetData><row r="1048576"><c r="XFD1048576" t="inlineStr"><is><t>x</t></is></c></row></sheetData>`,
		"row-number":        `<sheetData><row r="2147483647"><c r="A2147483647" t="inlineStr"><is><t>x</t></is></c></row><row r="-4"><c r="A-4"><v>1</v></c></row></sheetData>`,
		"column-letters":    `<sheetData><row r="1"><c r="ZZZZZZZZZZZZZZZZZZZZ1" t="inlineStr"><is><t>x</t></is></c><c r="1A"><v>2</v></c><c r=""><v>3</v></c></row></sheetData>`,
		"shared-index":      `<sheetData><row r="1"><c r="A1" t="s"><v>2147483647</v></c><c r="B1" t="s"><v>-1</v></c><c r="C1" t="s"><v>x</v></c></row></sheetData>`,
		"style-index":       `<sheetData><row r="1"><c r="A1" s="2147483647"><v>1</v></c><c r="B1" s="-1"><v>2</v></c></row></sheetData>`,
		"merge-whole":       `<sheetData><row r="1"><c r="A1"><v>1</v></c></row></sheetData><mergeCells><mergeCell ref="A1:XFD1048576"/><mergeCell ref="ZZZ9999999999:A1"/><mergeCell ref=":"/></mergeCells>`,
		"many-rows-dense":   `<sheetData>` + strings.Repeat(`<row r="1"><c r="A1"><v>1</v></c></row>`, 50000) + `</sheetData>`,
		"merge-beside-grid": `<sheetData><row r="1"><c r="A1"><v>1</v></c><c r="B1"><v>2</v></c></row><row r="3"><c r="A3"><v>3</v></c><c r="B3"><v>4</v></c></row></sheetData><mergeCells><mergeCell ref="D1:E2"/><mergeCell ref="C3:C5"/><mergeCell ref="XFD1:XFD2"/><mergeCell ref="B3:D9"/><mergeCell ref="A9:B10"/></mergeCells>`,
		"merge-reversed":    `<sheetData><row r="2"><c r="B2"><v>1</v></c></row></sheetData><mergeCells><mergeCell ref="C3:A1"/><mergeCell ref="B2:B2"/><mergeCell ref="A1"/><mergeCell ref="A0:B0"/></mergeCells>`,
	} {
		add("xlsx", "directed:"+name, ".xlsx", writeZip(replaceMember(xl, sheetName, sheet(body))))
	}
	// EPUB: a navigation document and NCX nested deep, spine entries that do not exist
	{
		ep := mkEPUBSimple([]string{"chapter one", "chapter two"})
		for i := range ep {
			if strings.HasSuffix(ep[i].Name, ".opf") {
				s := string(ep[i].Data)
				s = strings.Replace(s, "</spine>", strings.Repeat(`<itemref idref="nothing"/>`, 20000)+"</spine>", 1)
				c := make([]zipMember, len(ep))
				copy(c, ep)
				c[i].Data = []byte(s)
				add("epub", "directed:spine-dangling-20000", ".epub", writeZip(c))
				s2 := strings.Replace(string(ep[i].Data), "</manifest>", `<item id="ncx" href="toc.ncx" media-type="application/x-dtbncx+xml"/></manifest>`, 1)
				c2 := make([]zipMember, len(ep))
				copy(c2, ep)
				c2[i].Data = []byte(s2)
				dir := ep[i].Name[:strings.LastIndex(ep[i].Name, "/")+1]
				ncx := `<?xml version="1.0"?><ncx xmlns="http://www.daisy.org/z3986/2005/ncx/"><docTitle><text>t</text></docTitle><navMap>` + strings.Repeat(`<navPoint><navLabel><text>p</text></navLabel><content src="c1.xhtml"/>`, 9000) + strings.Repeat(`</navPoint>`, 9000) + `</navMap></ncx>`
				c2 = append(c2, zipMember{Name: dir + "toc.ncx", Data: []byte(ncx)})
				add("epub", "directed:ncx-nested-9000", ".epub", writeZip(c2))
			}
		}
	}
	// HTML
	for name, body := range map[string]string{
		"spans":                `<table><tr><td colspan="2147483647" rowspan="2147483647">a</td><td colspan="-4" rowspan="0">b</td></tr><tr><td rowspan="65535" colspan="1000">c</td></tr></table>`,
		"nested-500":           strings.Repeat("<div><ul><li>", 160) + "x" + strings.Repeat("</li></ul></div>", 160),
		"nested-tables-170":    strings.Repeat("<table><tr><td>", 170) + "x" + strings.Repeat("</td></tr></table>", 170),
		"unclosed-p-100000":    strings.Repeat("<p>x", 100000),
		"unclosed-li-100000":   "<ul>" + strings.Repeat("<li>x", 100000) + "</ul>",
		"formatting-100000":    strings.Repeat("<b><i>", 300) + strings.Repeat("<p>x</p>", 2000),
		"stray-end-tags":       strings.Repeat("</div></p></table></li>", 50000) + "<p>x</p>",
		"attributes-huge":      "<p " + strings.Repeat(`a="b" `, 100000) + ">x</p>",
		"ol-start":             `<ol start="2147483647"><li>a</li><li>b</li></ol><ol start="-9223372036854775808"><li>c</li></ol>`,
		"table-wide-and-short": "<table><tr>" + strings.Repeat("<td>x</td>", 20000) + "</tr><tr><td>y</td></tr></table>",
	} {
		add("html", "directed:"+name, ".html", []byte("<html><body>"+body+"</body></html>"))
	}
	return out
}

// tables whose span attributes do not fit together: cells spanning past the grid, covered cells missing or in excess
func c02SpanChaos(rng *RNG, n int) [][4]interface{} {
	var out [][4]interface{}
	spans := []int{1, 1, 1, 2, 2, 3, 5, 9, 16383, 16384, 16385, 100000}
	pick := func() int { return spans[rng.Intn(len(spans))] }
	odtHead := `<?xml version="1.0" encoding="UTF-8"?><office:document-content xmlns:office="urn:oasis:names:tc:opendocument:xmlns:office:1.0" xmlns:text="urn:oasis:names:tc:opendocument:xmlns:text:1.0" xmlns:table="urn:oasis:names:tc:opendocument:xmlns:table:1.0" office:version="1.2"><office:body><office:text>`
	odtTail := `</office:text></office:body></office:document-content>`
	docHead := `<?xml version="1.0" encoding="UTF-8" standalone="yes"?><w:document xmlns:w="http://schemas.openxmlformats.org/wordprocessingml/2006/main"><w:body>`
	docTail := `</w:body></w:document>`
	replace := func(ms []zipMember, name, data string) []zipMember {
		c := make([]zipMember, len(ms))
		copy(c, ms)
		for i := range c {
			if c[i].Name == name {
				c[i].Data = []byte(data)
			}
		}
		return c
	}
	for k := 0; k < n; k++ {
		rows := rng.Range(1, 5)
		var odt, docx, html strings.Builder
		odt.WriteString(`<table:table table:name="T">`)
		if rng.Bool() {
			fmt.Fprintf(&odt, `<table:table-column table:number-columns-repeated="%d"/>`, rng.Range(1, 4))
		}
		docx.WriteString(`<w:tbl>`)
		html.WriteString(`<table>`)
		for r := 0; r < rows; r++ {
			odt.WriteString(`<table:table-row>`)
			docx.WriteString(`<w:tr>`)
			html.WriteString(`<tr>`)
			for c := rng.Range(0, 4); c > 0; c-- {
				cs, rs := pick(), pick()
				if rng.Chance(1, 2) {
					rs = rng.Range(1, 3)
				}
				if rng.Chance(1, 2) {
					cs = rng.Range(1, 3)
				}
				if rng.Chance(1, 6) {
					odt.WriteString(`<table:covered-table-cell/>`)
				}
				fmt.Fprintf(&odt, `<table:table-cell table:number-columns-spanned="%d" table:number-rows-spanned="%d"><text:p>c%d</text:p></table:table-cell>`, cs, rs, c)
				vm := []string{"", `<w:vMerge/>`, `<w:vMerge w:val="restart"/>`}[rng.Intn(3)]
				fmt.Fprintf(&docx, `<w:tc><w:tcPr><w:gridSpan w:val="%d"/>%s</w:tcPr><w:p><w:r><w:t>c%d</w:t></w:r></w:p></w:tc>`, cs, vm, c)
				fmt.Fprintf(&html, `<td colspan="%d" rowspan="%d">c%d</td>`, cs, rs, c)
			}
			odt.WriteString(`</table:table-row>`)
			docx.WriteString(`</w:tr>`)
			html.WriteString(`</tr>`)
		}
		odt.WriteString(`</table:table>`)
		docx.WriteString(`</w:tbl>`)
		html.WriteString(`</table>`)
		out = append(out, [4]interface{}{"odt", "span-chaos", ".odt", writeZip(replace(mkODTSimple([]string{"x"}), "content.xml", odtHead+odt.String()+odtTail))})
		out = append(out, [4]interface{}{"docx", "span-chaos", ".docx", writeZip(replace(mkDOCXSimple([]string{"x"}), "word/document.xml", docHead+docx.String()+docTail))})
		out = append(out, [4]interface{}{"html", "span-chaos", ".html", []byte("<html><body>" + html.String() + "</body></html>")})
	}
	return out
}

// ---------- correspondence with the model: walks and size checks

func c02ModelCases(r *Run, rng *RNG, n int) {
	errV, okV := L(I(1)), func(k int) V { return L(I(0), I(k)) }
	guard := func(f func() error) (res V) {
		defer func() {
			if p := recover(); p != nil {
				res = RPanic()
			}
		}()
		if err := f(); err != nil {
			return errV
		}
		return L(I(0))
	}
	// (5) ResolveDeep over arbitrary reference graphs of arrays: cycles, shared subtrees, missing objects
	{
		drng := rng.Fork(55)
		for i := 0; i < n/2+20; i++ {
			nobj := drng.Range(1, 8)
			bomb := i%17 == 0 // every level lists the next one ten times
			bodies := []string{"<< /Type /Catalog /Pages 2 0 R >>", "<< /Type /Pages /Kids [] /Count 0 >>"}
			var objsV []V
			var gen func(depth int, self int) (string, V)
			gen = func(depth int, self int) (string, V) {
				switch k := drng.Intn(6); {
				case k <= 1:
					v := drng.Intn(100)
					return fmt.Sprint(v), L(I(0), I(v))
				case k <= 3 || depth >= 2:
					t := 3 + drng.Intn(nobj+1) // at times one beyond the last object
					if drng.Chance(2, 3) && self+1 <= 2+nobj {
						t = drng.Range(self+1, 2+nobj) // a later object: no cycle
					}
					return fmt.Sprintf("%d 0 R", t), L(I(1), I(t))
				default:
					var ps []string
					var vs []V
					for c := drng.Range(0, 3); c > 0; c-- {
						p, v := gen(depth+1, self)
						ps, vs = append(ps, p), append(vs, v)
					}
					return "[" + strings.Join(ps, " ") + "]", L(I(2), L(vs...))
				}
			}
			for k := 3; k <= 2+nobj; k++ {
				var ps []string
				var vs []V
				if bomb {
					for c := 0; c < 10; c++ {
						t := k + 1
						ps, vs = append(ps, fmt.Sprintf("%d 0 R", t)), append(vs, L(I(1), I(t)))
					}
					if k == 2+nobj {
						ps, vs = []string{"1"}, []V{L(I(0), I(1))}
					}
				} else {
					for c := drng.Range(0, 4); c > 0; c-- {
						p, v := gen(0, k)
						ps, vs = append(ps, p), append(vs, v)
					}
				}
				if !bomb && drng.Chance(1, 8) {
					// an object that is a bare number, or a bare reference
					if drng.Bool() {
						bodies = append(bodies, "5")
						objsV = append(objsV, L(I(k), L(I(0), I(5))))
					} else {
						t := drng.Range(3, 2+nobj)
						bodies = append(bodies, fmt.Sprintf("%d 0 R", t))
						objsV = append(objsV, L(I(k), L(I(1), I(t))))
					}
					continue
				}
				bodies = append(bodies, "["+strings.Join(ps, " ")+"]")
				objsV = append(objsV, L(I(k), L(I(2), L(vs...))))
			}
			if bomb && nobj < 7 {
				continue // too small to pass the budget; the random graphs cover the small ones
			}
			path := tmpFile(r, ".pdf", c02RawPDF(bodies, ""))
			root, rootV := gen(1, 2)
			if drng.Bool() || bomb {
				root, rootV = "3 0 R", L(I(1), I(3))
			}
			var enc func(o core.Object) V
			enc = func(o core.Object) V {
				switch x := o.(type) {
				case core.Int:
					return L(I(0), I(int(x)))
				case core.IndirectRef:
					return L(I(1), I(x.Number))
				case core.Array:
					vs := VL{}
					for _, e := range x {
						vs = append(vs, enc(e))
					}
					return L(I(2), vs)
				}
				return L(I(99))
			}
			got := RPanic()
			func() {
				defer func() { recover() }()
				rd, err := reader.Open(path)
				if err != nil {
					got = L(I(7))
					return
				}
				defer rd.Close()
				obj, err := core.NewParser(strings.NewReader(root + " ")).ParseObject()
				if err != nil {
					got = L(I(8))
					return
				}
				res, err := rd.ResolveDeep(obj)
				if err != nil {
					got = errV
				} else {
					got = L(I(0), enc(res))
				}
			}()
			kind := "random"
			if bomb {
				kind = "shared-subtrees"
			}
			r.Case(L(I(5), L(objsV...), I(1<<20), rootV), got, "resolve-deep:"+kind, nobj >= 3)
			os.Remove(path)
		}
	}
	// (0) page trees as arbitrary reference graphs
	for i := 0; i < n; i++ {
		nobj := rng.Range(2, 12)
		bodies := []string{"<< /Type /Catalog /Pages 2 0 R >>"}
		objs := []V{L(I(1), L(I(2)))}
		// mostly trees (every kid a later object, referenced once), with a stray reference now and then
		treeMode := rng.Chance(2, 3)
		used := map[int]bool{}
		for k := 2; k <= nobj+1; k++ {
			kind := rng.Intn(5)
			if treeMode {
				kind = []int{0, 2, 2, 3, 1}[rng.Intn(5)]
				if rng.Chance(1, 20) {
					kind = 4
				}
			}
			if k == 2 || kind <= 1 {
				var kids []string
				var kv []V
				for c := rng.Range(0, 4); c > 0; c-- {
					t := rng.Range(0, nobj+3)
					if rng.Chance(2, 3) {
						t = rng.Range(2, nobj+1)
					}
					if treeMode && !rng.Chance(1, 12) {
						t = 0
						for cand := k + 1; cand <= nobj+1; cand++ {
							if !used[cand] && rng.Chance(1, 2) {
								t = cand
								break
							}
						}
						if t == 0 {
							continue
						}
						used[t] = true
					}
					kids = append(kids, fmt.Sprintf("%d 0 R", t))
					kv = append(kv, I(t))
				}
				bodies = append(bodies, fmt.Sprintf("<< /Type /Pages /Kids [%s] /Count %d >>", strings.Join(kids, " "), rng.Intn(5)))
				objs = append(objs, L(I(k), L(I(0), L(kv...))))
			} else if kind <= 3 {
				bodies = append(bodies, "<< /Type /Page /MediaBox [0 0 10 10] >>")
				objs = append(objs, L(I(k), L(I(1))))
			} else {
				bodies = append(bodies, []string{"<< /Type /Font >>", "42", "<< /Kids [2 0 R] >>", "[2 0 R]"}[rng.Intn(4)])
				objs = append(objs, L(I(k), L(I(2))))
			}
		}
		path := tmpFile(r, ".pdf", c02RawPDF(bodies, ""))
		var got V
		done := make(chan V, 1)
		go func() {
			defer func() {
				if p := recover(); p != nil {
					done <- RPanic()
				}
			}()
			rd, err := reader.Open(path)
			if err != nil {
				done <- errV
				return
			}
			defer rd.Close()
			c, err := rd.PageCount()
			if err != nil {
				done <- errV
				return
			}
			done <- okV(c)
		}()
		select {
		case got = <-done:
		case <-time.After(10 * time.Second):
			got = RDiverge()
		}
		r.Case(L(I(0), L(objs...), I(2)), got, "page-tree-graph", true)
	}
	// (1) /Prev chains
	for i := 0; i < n; i++ {
		k := rng.Range(1, 5)
		base := c02RawPDF([]string{"<< /Type /Catalog /Pages 2 0 R >>", "<< /Type /Pages /Kids [] /Count 0 >>"}, "")
		body := string(base[:strings.LastIndex(string(base), "xref\n")])
		// section offsets are known before the Prev values are chosen: fixed-width numbers
		secLen := func(main bool) int {
			if main {
				return len(fmt.Sprintf("xref\n0 3\n0000000000 65535 f \n%010d 00000 n \n%010d 00000 n \ntrailer\n<< /Size 3 /Root 1 0 R /Prev %010d >>\n", 0, 0, 0))
			}
			return len(fmt.Sprintf("xref\n0 1\n0000000000 65535 f \ntrailer\n<< /Size 3 /Root 1 0 R /Prev %010d >>\n", 0))
		}
		offs := make([]int, k)
		pos := len(body)
		for s := 0; s < k; s++ {
			offs[s] = pos
			pos += secLen(s == k-1)
		}
		o1 := strings.Index(body, "1 0 obj")
		o2 := strings.Index(body, "2 0 obj")
		var file strings.Builder
		file.WriteString(body)
		var secs []V
		for s := 0; s < k; s++ {
			prev := -1
			switch rng.Intn(5) {
			case 0:
			case 1:
				prev = offs[rng.Intn(k)]
			case 2:
				if s > 0 {
					prev = offs[s-1]
				}
			case 3:
				prev = 3 // not a section
			case 4:
				if s > 0 {
					prev = offs[rng.Intn(s)]
				}
			}
			pv := "                " // as wide as a /Prev entry
			pm := L()
			if prev >= 0 {
				pv = fmt.Sprintf("/Prev %010d", prev)
				pm = L(I(prev))
			}
			if s == k-1 {
				fmt.Fprintf(&file, "xref\n0 3\n0000000000 65535 f \n%010d 00000 n \n%010d 00000 n \ntrailer\n<< /Size 3 /Root 1 0 R %s >>\n", o1, o2, pv)
			} else {
				fmt.Fprintf(&file, "xref\n0 1\n0000000000 65535 f \ntrailer\n<< /Size 3 /Root 1 0 R %s >>\n", pv)
			}
			if prev != 3 || true {
				secs = append(secs, L(I(offs[s]), pm))
			}
		}
		fmt.Fprintf(&file, "startxref\n%d\n%%%%EOF\n", offs[k-1])
		path := tmpFile(r, ".pdf", []byte(file.String()))
		var got V
		done := make(chan V, 1)
		go func() {
			defer func() {
				if p := recover(); p != nil {
					done <- RPanic()
				}
			}()
			f, err := os.Open(path)
			if err != nil {
				done <- errV
				return
			}
			defer f.Close()
			tabs, err := core.NewXRefParser(f).ParseAllXRefs()
			if err != nil {
				done <- errV
				return
			}
			done <- okV(len(tabs))
		}()
		select {
		case got = <-done:
		case <-time.After(10 * time.Second):
			got = RDiverge()
		}
		r.Case(L(I(1), L(secs...), I(offs[k-1])), got, "prev-chain", true)
	}
	// (2) cross-reference stream sizes
	ws := []int{-1, 0, 0, 1, 1, 2, 3, 4, 8, 9, 2147483647}
	for i := 0; i < n; i++ {
		w := [3]int{ws[rng.Intn(len(ws))], ws[rng.Intn(len(ws))], ws[rng.Intn(len(ws))]}
		if rng.Chance(2, 3) {
			w = [3]int{rng.Intn(3), rng.Range(0, 4), rng.Intn(3)}
		}
		dlen := rng.Intn(64)
		row := w[0] + w[1] + w[2]
		var idx []int
		left := dlen
		for s := rng.Range(0, 3); s > 0; s-- {
			first := []int{0, 5, 100, -1}[rng.Intn(4)]
			fit := 0
			if row > 0 && row < 1000 {
				fit = left / row
			}
			count := []int{0, 1, fit, fit, fit + 1, 2147483647, -1}[rng.Intn(7)]
			idx = append(idx, first, count)
			if count > 0 && row > 0 && row < 1000 && count <= fit {
				left -= count * row
			}
		}
		if rng.Chance(1, 8) {
			idx = append(idx, 7)
		}
		var is []string
		var iv []V
		for _, x := range idx {
			is = append(is, fmt.Sprint(x))
			iv = append(iv, I(x))
		}
		var b bytes.Buffer
		b.WriteString("%PDF-1.7\n")
		x := b.Len()
		fmt.Fprintf(&b, "1 0 obj\n%s\nendobj\nstartxref\n%d\n%%%%EOF\n", c02StreamObj(fmt.Sprintf("/Type /XRef /Size 200 /W [%d %d %d] /Index [%s]", w[0], w[1], w[2], strings.Join(is, " ")), make([]byte, dlen)), x)
		path := tmpFile(r, ".pdf", b.Bytes())
		got := guard(func() error {
			f, err := os.Open(path)
			if err != nil {
				return err
			}
			defer f.Close()
			_, err = core.NewXRefParser(f).ParseXRefFromEOF()
			return err
		})
		r.Case(L(I(2), I(w[0]), I(w[1]), I(w[2]), L(iv...), I(dlen)), got, "xref-stream-sizes", true)
	}
	// (3) object stream headers
	for i := 0; i < n; i++ {
		header := strings.Repeat("1 0 ", rng.Intn(6)) + strings.Repeat(" ", rng.Intn(4))
		body := "<< /A 1 >>"
		decoded := header + body
		first := []int{len(header), len(header), 0, len(decoded), len(decoded) + 1, -1, 2147483647}[rng.Intn(7)]
		pairs := 0
		if first >= 0 {
			pairs = first/4 + 1
		}
		nn := []int{0, 1, pairs - 1, pairs, pairs + 1, 2147483647, -1}[rng.Intn(7)]
		st := &core.Stream{Dict: core.Dict{"Type": core.Name("ObjStm"), "N": core.Int(nn), "First": core.Int(first)}, Data: []byte(decoded)}
		var got V
		func() {
			defer func() {
				if p := recover(); p != nil {
					got = RPanic()
				}
			}()
			os, err := core.NewObjectStream(st)
			if err != nil {
				got = errV
				return
			}
			_, _, err = os.GetObjectByIndex(0)
			// only the size checks are compared: other errors (a header with too few pairs, an index out of range) are not theirs
			if err != nil && (strings.Contains(err.Error(), "exceeds what its header") || strings.Contains(err.Error(), "First offset")) {
				got = errV
				return
			}
			got = L(I(0))
		}()
		r.Case(L(I(3), I(nn), I(first), I(len(decoded))), got, "object-stream-header", true)
	}
	// (4) worksheet grids
	grids := [][3]int{{1, 0, 1}, {1048576, 0, 1}, {1048577, 0, 1}, {1, 16383, 1}, {1, 16384, 1}, {1025, 1023, 1}, {1024, 1023, 1}, {2000, 600, 2}, {2000, 600, 4688}, {2000, 600, 4687}, {2000, 600, 4690}, {1048576, 16383, 3}, {70000, 14, 1}, {69905, 14, 1}, {69906, 14, 1}}
	for _, g := range grids {
		maxRow, maxCol, populated := g[0], g[1], g[2]
		t := "x"
		var rows []c17Row
		var first []c17Cell
		for c := 0; c < populated-1; c++ {
			first = append(first, c17Cell{ref: refOf(c%(maxCol+1), 0), t: "inlineStr", is: &t})
		}
		if maxRow == 1 {
			first = append(first, c17Cell{ref: refOf(maxCol, 0), t: "inlineStr", is: &t})
			rows = append(rows, c17Row{r: 1, cells: first})
		} else {
			if len(first) > 0 {
				rows = append(rows, c17Row{r: 1, cells: first})
			}
			rows = append(rows, c17Row{r: maxRow, cells: []c17Cell{{ref: refOf(maxCol, maxRow-1), t: "inlineStr", is: &t}}})
		}
		path := tmpFile(r, ".xlsx", writeZip(c17WorkbookMembers([]c17Sheet{{name: "S", rows: rows}}, nil)))
		got := guard(func() error {
			rd, err := xlsx.Open(path)
			if err != nil {
				return err
			}
			rd.Close()
			return nil
		})
		r.Case(L(I(4), I(maxRow), I(maxCol), I(populated)), got, "worksheet-grid", true)
	}
}
