package main

import (
	"crypto/sha256"
	"fmt"
	"os"
	"sort"
	"strings"
	"sync"

	"github.com/tsawler/tabula"
	"github.com/tsawler/tabula/contentstream"
	"github.com/tsawler/tabula/docx"
	"github.com/tsawler/tabula/epubdoc"
	"github.com/tsawler/tabula/htmldoc"
	"github.com/tsawler/tabula/model"
	"github.com/tsawler/tabula/odt"
	"github.com/tsawler/tabula/pptx"
	"github.com/tsawler/tabula/reader"
	"github.com/tsawler/tabula/xlsx"
)

type c03doc struct {
	path string
	kind string
	bad  bool
}

// c03Extract: everything an extraction returns, as one digest per operation.
func c03Extract(path string) [9]string {
	h := func(s string, err error) string {
		if err != nil {
			return "error"
		}
		return fmt.Sprintf("%x", sha256.Sum256([]byte(s)))[:16]
	}
	var out [9]string
	func() {
		defer func() {
			if r := recover(); r != nil {
				out[0] = "panic"
			}
		}()
		t, _, err := tabula.Open(path).Text()
		out[0] = h(t, err)
		m, _, err := tabula.Open(path).ToMarkdown()
		out[1] = h(m, err)
		cc, _, err := tabula.Open(path).Chunks()
		if err != nil || cc == nil {
			out[2], out[3], out[5], out[6], out[7] = "error", "error", "error", "error", "error"
		} else {
			j, e2 := cc.ToJSON()
			out[2] = h(j, e2)
			l, e3 := cc.ToJSONL()
			out[3] = h(l, e3)
			c, e4 := cc.ToCSV()
			out[5] = h(c, e4)
			t, e5 := cc.ToTSV()
			out[6] = h(t, e5)
			out[7] = h(cc.ToMarkdown(), nil)
		}
		if fr, _, err := tabula.Open(path).Fragments(); err == nil {
			// geometry too: widths come from font tables that documents may share
			var b strings.Builder
			for _, f := range fr {
				fmt.Fprintf(&b, "%s|%.3f|%.3f|%.3f|%.3f;", f.Text, f.X, f.Y, f.Width, f.Height)
			}
			out[8] = h(b.String(), nil)
		} else {
			out[8] = "error"
		}
		d, _, err := tabula.Open(path).Document()
		if err != nil || d == nil {
			out[4] = "error"
		} else {
			var b strings.Builder
			for _, p := range d.Pages {
				fmt.Fprintf(&b, "page %d:", p.Number)
				for _, e := range p.Elements {
					fmt.Fprintf(&b, "%T|", e)
				}
				b.WriteString(p.ExtractText())
			}
			out[4] = h(b.String(), nil)
		}
	}()
	return out
}

// c03ReaderOps are the outputs one open format reader can be asked for, as strings.
type c03ReaderOps struct {
	format string
	open   func(path string) (func(), map[string]func() string, error)
}

func c03DocText(d *model.Document, err error) string {
	if err != nil || d == nil {
		return "error"
	}
	var b strings.Builder
	for _, p := range d.Pages {
		fmt.Fprintf(&b, "page %d:", p.Number)
		for _, e := range p.Elements {
			fmt.Fprintf(&b, "%T|", e)
			if t, ok := e.(*model.Table); ok {
				for _, row := range t.Rows {
					for _, c := range row {
						fmt.Fprintf(&b, "[%q %dx%d]", c.Text, c.RowSpan, c.ColSpan)
					}
				}
			}
		}
		b.WriteString(p.ExtractText())
	}
	return b.String()
}

func c03Str(s string, err error) string {
	if err != nil {
		return "error: " + err.Error()
	}
	return s
}

func c03Readers() []c03ReaderOps {
	return []c03ReaderOps{
		{"docx", func(path string) (func(), map[string]func() string, error) {
			rd, err := docx.Open(path)
			if err != nil {
				return nil, nil, err
			}
			return func() { rd.Close() }, map[string]func() string{
				"Text":     func() string { return c03Str(rd.Text()) },
				"Markdown": func() string { return c03Str(rd.Markdown()) },
				"Document": func() string { return c03DocText(rd.Document()) },
				"TextWithOptions(no headers, no footers)": func() string {
					return c03Str(rd.TextWithOptions(docx.ExtractOptions{ExcludeHeaders: true, ExcludeFooters: true}))
				},
			}, nil
		}},
		{"odt", func(path string) (func(), map[string]func() string, error) {
			rd, err := odt.Open(path)
			if err != nil {
				return nil, nil, err
			}
			return func() { rd.Close() }, map[string]func() string{
				"Text":     func() string { return c03Str(rd.Text()) },
				"Markdown": func() string { return c03Str(rd.Markdown()) },
				"Document": func() string { return c03DocText(rd.Document()) },
			}, nil
		}},
		{"xlsx", func(path string) (func(), map[string]func() string, error) {
			rd, err := xlsx.Open(path)
			if err != nil {
				return nil, nil, err
			}
			return func() { rd.Close() }, map[string]func() string{
				"Text":     func() string { return c03Str(rd.Text()) },
				"Markdown": func() string { return c03Str(rd.Markdown()) },
				"Document": func() string { return c03DocText(rd.Document()) },
			}, nil
		}},
		{"pptx", func(path string) (func(), map[string]func() string, error) {
			rd, err := pptx.Open(path)
			if err != nil {
				return nil, nil, err
			}
			all := pptx.ExtractOptions{IncludeNotes: true, IncludeTitles: true}
			return func() { rd.Close() }, map[string]func() string{
				"Text":                       func() string { return c03Str(rd.Text()) },
				"Markdown":                   func() string { return c03Str(rd.Markdown()) },
				"Document":                   func() string { return c03DocText(rd.Document()) },
				"TextWithOptions(notes)":     func() string { return c03Str(rd.TextWithOptions(all)) },
				"MarkdownWithOptions(notes)": func() string { return c03Str(rd.MarkdownWithOptions(all)) },
				"Slide(0).Notes": func() string {
					sl, err := rd.Slide(0)
					if err != nil {
						return "error"
					}
					return sl.Notes
				},
			}, nil
		}},
		{"epub", func(path string) (func(), map[string]func() string, error) {
			rd, err := epubdoc.Open(path)
			if err != nil {
				return nil, nil, err
			}
			return func() { rd.Close() }, map[string]func() string{
				"Text":     func() string { return c03Str(rd.Text()) },
				"Markdown": func() string { return c03Str(rd.Markdown()) },
				"Document": func() string { return c03DocText(rd.Document()) },
			}, nil
		}},
		{"html", func(path string) (func(), map[string]func() string, error) {
			rd, err := htmldoc.Open(path)
			if err != nil {
				return nil, nil, err
			}
			m := map[string]func() string{
				"Text":     func() string { return c03Str(rd.Text()) },
				"Markdown": func() string { return c03Str(rd.Markdown()) },
				"Document": func() string { return c03DocText(rd.Document()) },
			}
			for mode := 0; mode < 4; mode++ {
				opts := htmldoc.ExtractOptions{NavigationExclusion: htmldoc.NavigationExclusionMode(mode)}
				m[fmt.Sprintf("TextWithOptions(exclusion %d)", mode)] = func() string { return c03Str(rd.TextWithOptions(opts)) }
				m[fmt.Sprintf("MarkdownWithOptions(exclusion %d)", mode)] = func() string { return c03Str(rd.MarkdownWithOptions(opts)) }
			}
			return func() { rd.Close() }, m, nil
		}},
	}
}

// c03OneReader asks one open reader for every output twice and in two orders; each answer must be what a
// fresh reader gives for the same question.
func c03OneReader(r *Run, ops c03ReaderOps, path string) {
	var names []string
	fresh := map[string]string{}
	{
		_, m, err := ops.open(path)
		if err != nil {
			r.Check(false, "history:calls-on-one-reader:"+ops.format, "generated document does not open: "+err.Error(), Bs(path))
			return
		}
		for n := range m {
			names = append(names, n)
		}
		sort.Strings(names)
	}
	for _, n := range names {
		cl, m, err := ops.open(path)
		if err != nil {
			return
		}
		fresh[n] = m[n]()
		cl()
	}
	cl, m, err := ops.open(path)
	if err != nil {
		return
	}
	defer cl()
	var seq []string
	seq = append(seq, names...)
	seq = append(seq, names...)
	for i := len(names) - 1; i >= 0; i-- {
		seq = append(seq, names[i])
	}
	why := ""
	for k, n := range seq {
		if got := m[n](); got != fresh[n] {
			why = fmt.Sprintf("%s as call %d on one %s reader (after %v) gives %q, a fresh reader gives %q", n, k+1, ops.format, seq[:k], c03Clip(got), c03Clip(fresh[n]))
			break
		}
	}
	r.Check(why == "", "history:calls-on-one-reader:"+ops.format, why, Bs(path))
}

// c03OneReaderOf runs the one-reader history on a document of the named format (used by other properties'
// harnesses on their own documents: rendering one view must not change what a later call answers).
func c03OneReaderOf(r *Run, format, path string) {
	for _, ops := range c03Readers() {
		if ops.format == format {
			c03OneReader(r, ops, path)
		}
	}
}

func c03Clip(s string) string {
	if len(s) > 300 {
		return s[:300] + "..."
	}
	return s
}

func init() {
	props["C03"] = func(r *Run, rng *RNG) {
		thorough := r.Tier == "thorough"
		r.Rule = "generated documents of every format (PDF with several pages, positioned lines and three fonts of different encodings, the same base font with and without its own /Widths, baselines closer than the glyph height, documents with ToUnicode / Type0 / TrueType fonts under random object numbers, DOCX, ODT, XLSX, PPTX, EPUB, HTML) plus truncated and corrupted copies that fail or end mid-operand; each document extracted (text, Markdown, chunks as JSON, JSON Lines, CSV, TSV and Markdown, document model, fragments with their geometry) 8 times in a row (thorough: 26), in 3 random orders of all documents, and concurrently on 8 goroutines (thorough: 16 goroutines, 20 rounds) in a binary built with the race detector; content streams that end mid-operand followed by other streams through contentstream.Parser. non-trivial = every document"
		words := func(n int, tag string) []string {
			var out []string
			for i := 0; i < n; i++ {
				out = append(out, fmt.Sprintf("%s paragraph %d with some words %d.", tag, i, rng.Intn(1000)))
			}
			return out
		}
		var docs []c03doc
		var fontPair [][2]string
		add := func(kind, ext string, data []byte, bad bool) {
			docs = append(docs, c03doc{tmpFile(r, ext, data), kind, bad})
		}
		nd := 2
		if thorough {
			nd = 5
		}
		for i := 0; i < nd; i++ {
			var pages [][]pdfLine
			for p := 0; p < rng.Range(1, 3); p++ {
				var ls []pdfLine
				y := 720
				for l := 0; l < rng.Range(2, 8); l++ {
					// three fonts with different encodings: the same bytes mean different characters
					ls = append(ls, pdfLine{x: 72, y: y, size: 12, font: 1 + l%3, text: fmt.Sprintf("PDF%d line %d of page %d value %d AB\xe9\xdb", i, l, p, rng.Intn(100))})
					y -= 18
				}
				pages = append(pages, ls)
			}
			pdf := mkPDFLines(pages, 612, 792)
			add("pdf", ".pdf", pdf, false)
			// the same base font with its own /Widths: documents must not see each other's widths
			var ws []string
			for c := 32; c <= 126; c++ {
				ws = append(ws, fmt.Sprint(200+rng.Intn(900)))
			}
			pdfLinesFontExtra = " /FirstChar 32 /LastChar 126 /Widths [" + strings.Join(ws, " ") + "]"
			withW := mkPDFLines([][]pdfLine{{{x: 72, y: 700, size: 12, text: fmt.Sprintf("Hello World number %d", i)}, {x: 72, y: 680, size: 12, text: "second line of words"}}}, 612, 792)
			pdfLinesFontExtra = ""
			add("pdf-own-widths", ".pdf", withW, false)
			add("pdf-standard-widths", ".pdf", mkPDFLines([][]pdfLine{{{x: 72, y: 700, size: 12, text: fmt.Sprintf("Hello World number %d", i)}, {x: 72, y: 680, size: 12, text: "second line of words"}}}, 612, 792), false)
			// documents with fonts of every kind under random object numbers (what one document calls object 7
			// is a different font in the next)
			for k := 0; k < 2; k++ {
				d := c01GenDoc(rng)
				add("pdf-fonts", ".pdf", c01Physical(rng, &d), false)
			}
			// two documents whose font is the same object number but not the same font
			{
				cm := "/CIDInit /ProcSet findresource begin 12 dict begin begincmap 1 begincodespacerange <00> <FF> endcodespacerange 3 beginbfchar <61> <0058> <62> <0059> <63> <005A> endbfchar endcmap end end"
				pageA := "<< /Type /Page /Parent 2 0 R /MediaBox [0 0 612 792] /Resources << /Font << /F1 4 0 R >> >> /Contents 5 0 R >>"
				content := c02StreamObj("", []byte("BT /F1 12 Tf 72 700 Td (a cab in a cab) Tj ET"))
				a := c02RawPDF([]string{"<< /Type /Catalog /Pages 2 0 R >>", "<< /Type /Pages /Kids [3 0 R] /Count 1 >>", pageA,
					"<< /Type /Font /Subtype /TrueType /BaseFont /ABCDEF+Custom /FirstChar 32 /LastChar 32 /Widths [250] /ToUnicode 6 0 R >>", content, c02StreamObj("", []byte(cm))}, "")
				b := c02RawPDF([]string{"<< /Type /Catalog /Pages 2 0 R >>", "<< /Type /Pages /Kids [3 0 R] /Count 1 >>", pageA,
					"<< /Type /Font /Subtype /Type1 /BaseFont /Helvetica /Encoding /MacRomanEncoding >>", content}, "")
				add("pdf-font4-tounicode", ".pdf", a, false)
				add("pdf-font4-macroman", ".pdf", b, false)
				fontPair = append(fontPair, [2]string{docs[len(docs)-2].path, docs[len(docs)-1].path})
			}
			// baselines closer than the glyphs are high, in no particular stream order
			var dense []pdfLine
			for l := 0; l < 14; l++ {
				dense = append(dense, pdfLine{x: 72 + 40*(l%3), y: 700 - 3*((l*5)%14), size: 12, text: fmt.Sprintf("w%dx", l)})
			}
			add("pdf-dense", ".pdf", mkPDFLines([][]pdfLine{dense}, 612, 792), false)
			add("docx", ".docx", writeZip(mkDOCXSimple(words(rng.Range(2, 6), fmt.Sprintf("DOCX%d", i)))), false)
			add("odt", ".odt", writeZip(mkODTSimple(words(rng.Range(2, 6), fmt.Sprintf("ODT%d", i)))), false)
			add("xlsx", ".xlsx", writeZip(mkXLSXSimple(words(rng.Range(2, 6), fmt.Sprintf("XLSX%d", i)))), false)
			add("pptx", ".pptx", writeZip(mkPPTXSimple(words(rng.Range(2, 4), fmt.Sprintf("PPTX%d", i)))), false)
			add("epub", ".epub", writeZip(mkEPUBSimple(words(rng.Range(2, 4), fmt.Sprintf("EPUB%d", i)))), false)
			add("html", ".html", mkHTMLSimple(words(rng.Range(2, 6), fmt.Sprintf("HTML%d", i))), false)
			// inputs that fail: truncated and corrupted copies
			add("pdf-truncated", ".pdf", pdf[:len(pdf)*2/3], true)
			cut := strings.Index(string(pdf), " Tj")
			if cut > 0 {
				broken := append([]byte{}, pdf...)
				copy(broken[cut-6:cut], []byte("(((((("))
				add("pdf-mid-operand", ".pdf", broken, true)
			}
			dz := writeZip(mkDOCXSimple(words(2, "X")))
			add("docx-truncated", ".docx", dz[:len(dz)/2], true)
		}
		// (0) a document read after another one shows its own font's text
		for _, fp := range fontPair {
			ta, _, ea := tabula.Open(fp[0]).Text()
			tb, _, eb := tabula.Open(fp[1]).Text()
			r.Check(ea == nil && eb == nil && strings.Contains(ta, "X ZXY") && strings.Contains(tb, "a cab in a cab"), "history:font-of-another-document",
				fmt.Sprintf("two documents with different fonts under the same object number, read one after the other: %q then %q", ta, tb), nil)
		}
		// (0b) the pages of one open document: the text of a page is the same when it is read again and whatever was read before it
		{
			cm := "/CIDInit /ProcSet findresource begin 12 dict begin begincmap 1 begincodespacerange <00> <FF> endcodespacerange 3 beginbfchar <41> <0058> <42> <0059> <43> <005A> endbfchar endcmap end end"
			res := "<< /Font << /F1 5 0 R >> /XObject << /Fm 7 0 R >> >>"
			form := c02StreamObj("/Type /XObject /Subtype /Form /BBox [0 0 200 200] /Resources << /Font << /F1 8 0 R >> >>", []byte("BT /F1 10 Tf 10 10 Td (ABC) Tj <41 4243> Tj ET"))
			pdf := c02RawPDF([]string{
				"<< /Type /Catalog /Pages 2 0 R >>",
				"<< /Type /Pages /Kids [3 0 R 4 0 R] /Count 2 /Resources 6 0 R /MediaBox [0 0 612 792] >>",
				"<< /Type /Page /Parent 2 0 R /Contents 10 0 R >>",
				"<< /Type /Page /Parent 2 0 R /Contents 11 0 R >>",
				"<< /Type /Font /Subtype /Type1 /BaseFont /Helvetica /Encoding /WinAnsiEncoding >>",
				res,
				form,
				"<< /Type /Font /Subtype /TrueType /BaseFont /ABCDEF+Sub /FirstChar 32 /LastChar 32 /Widths [250] /ToUnicode 9 0 R >>",
				c02StreamObj("", []byte(cm)),
				c02StreamObj("", []byte("BT /F1 12 Tf 72 700 Td (ABC page one) Tj ET /Fm Do BT /F1 12 Tf 72 650 Td (ABC after the form) Tj ET")),
				c02StreamObj("", []byte("BT /F1 12 Tf 72 700 Td (ABC page two) Tj ET")),
			}, "")
			path := tmpFile(r, ".pdf", pdf)
			pageText := func(rd *reader.Reader, i int) string {
				pg, err := rd.GetPage(i)
				if err != nil {
					return "error: " + err.Error()
				}
				fr, err := rd.ExtractTextFragments(pg)
				if err != nil {
					return "error: " + err.Error()
				}
				var b strings.Builder
				for _, f := range fr {
					b.WriteString(f.Text + "|")
				}
				return b.String()
			}
			fresh := func(i int) string {
				rd, err := reader.Open(path)
				if err != nil {
					return "error: " + err.Error()
				}
				defer rd.Close()
				return pageText(rd, i)
			}
			alone := []string{fresh(0), fresh(1)}
			rd, err := reader.Open(path)
			if err == nil {
				seq := []int{0, 0, 1, 0, 1, 1}
				okR, why := true, ""
				for _, i := range seq {
					if got := pageText(rd, i); got != alone[i] {
						okR, why = false, fmt.Sprintf("page %d read on a reader that has read other pages: %q; read alone: %q", i+1, got, alone[i])
					}
				}
				rd.Close()
				r.Check(okR && strings.Contains(alone[0], "XYZ|XYZ|") && strings.Contains(alone[0], "ABC after the form") && strings.Contains(alone[1], "ABC page two"), "history:pages-of-one-reader", why+" (page one alone: "+alone[0]+")", Bs(path))
			} else {
				r.Check(false, "history:pages-of-one-reader", "generated document does not open: "+err.Error(), Bs(path))
			}
		}
		// (0c) one open reader of every other format asked for all its outputs, twice and in two orders
		{
			ws := func(tag string, n int) []string {
				var out []string
				for k := 0; k < n; k++ {
					out = append(out, fmt.Sprintf("%s word%d and more text. Second sentence %d.", tag, k, k))
				}
				return out
			}
			// a presentation whose first slide has speaker notes of three paragraphs
			ms := mkPPTXSimple(ws("Slide", 3))
			notes := `<?xml version="1.0"?><p:notes xmlns:a="http://schemas.openxmlformats.org/drawingml/2006/main" xmlns:p="http://schemas.openxmlformats.org/presentationml/2006/main"><p:cSld><p:spTree><p:sp><p:nvSpPr><p:cNvPr id="2" name="Notes"/><p:cNvSpPr/><p:nvPr><p:ph type="body" idx="1"/></p:nvPr></p:nvSpPr><p:spPr/><p:txBody><a:bodyPr/><a:p><a:r><a:t>first note paragraph</a:t></a:r></a:p><a:p><a:r><a:t>second note paragraph</a:t></a:r></a:p><a:p><a:r><a:t>third</a:t></a:r></a:p></p:txBody></p:sp></p:spTree></p:cSld></p:notes>`
			var slide1 string
			for _, m := range ms {
				if strings.HasPrefix(m.Name, "ppt/slides/") && strings.HasSuffix(m.Name, ".xml") && slide1 == "" {
					slide1 = m.Name
				}
			}
			if slide1 != "" {
				base := slide1[strings.LastIndex(slide1, "/")+1:]
				ms = append(ms, zipMember{Name: "ppt/notesSlides/notesSlide1.xml", Data: []byte(notes)})
				ms = append(ms, zipMember{Name: "ppt/slides/_rels/" + base + ".rels", Data: []byte(`<?xml version="1.0"?><Relationships xmlns="http://schemas.openxmlformats.org/package/2006/relationships"><Relationship Id="rIdN" Type="http://schemas.openxmlformats.org/officeDocument/2006/relationships/notesSlide" Target="../notesSlides/notesSlide1.xml"/></Relationships>`)})
			}
			// word-processor documents with a heading, a list and a table whose cells hold several paragraphs,
			// pipes and a span; an HTML page with the same kinds of content
			wpb := []wpBlock{
				{kind: 1, level: 1, inl: []wpInline{{0, "Title of the document"}}},
				{kind: 0, inl: []wpInline{{0, "First paragraph, with a tab"}, {1, ""}, {0, "and a break"}, {2, ""}, {0, "inside."}}},
				{kind: 2, level: 0, listID: 1, inl: []wpInline{{0, "item one"}}},
				{kind: 2, level: 1, listID: 1, inl: []wpInline{{0, "item one a"}}},
				{kind: 3, table: [][]wpCell{
					{{paras: []string{"first para", "second para"}, span: 1, rows: 1}, {paras: []string{"a | b"}, span: 1, rows: 1}},
					{{paras: []string{"wide cell"}, span: 2, rows: 1}},
					{{paras: []string{"x", "y", "z"}, span: 1, rows: 1}, {paras: []string{""}, span: 1, rows: 1}},
				}},
				{kind: 0, inl: []wpInline{{0, "Last paragraph."}}},
			}
			htmlDoc := `<html><body><nav><ul><li><a href="/a">Home</a></li><li><a href="/b">About</a></li></ul></nav><header><p>site banner</p></header><div class="sidebar"><p>side words</p></div><div class="social-share"><a href="#">share</a> <a href="#">this</a></div><h1>Title</h1><p>Para one</p><ul><li>item<ul><li>inner</li></ul></li></ul>` +
				`<table><tr><th>h | 1</th><th>h2</th></tr><tr><td>line one<br>line two</td><td colspan="1">c | d</td></tr></table><pre>code | here</pre><footer><p>site footer</p></footer></body></html>`
			files := map[string]string{
				"docx": tmpFile(r, ".docx", writeZip(mkDOCXBlocks(wpb, "", ""))),
				"odt":  tmpFile(r, ".odt", writeZip(mkODTBlocks(wpb))),
				"xlsx": tmpFile(r, ".xlsx", writeZip(mkXLSXSimple(ws("Cell", 5)))),
				"pptx": tmpFile(r, ".pptx", writeZip(ms)),
				"epub": tmpFile(r, ".epub", writeZip(mkEPUBSimple(ws("Chapter", 3)))),
				"html": tmpFile(r, ".html", []byte(htmlDoc)),
			}
			for _, ops := range c03Readers() {
				c03OneReader(r, ops, files[ops.format])
			}
			// the notes must really be there, or the check above says nothing about them
			if rd, err := pptx.Open(files["pptx"]); err == nil {
				md, _ := rd.MarkdownWithOptions(pptx.ExtractOptions{IncludeNotes: true, IncludeTitles: true})
				r.Check(strings.Contains(md, "second note paragraph"), "history:calls-on-one-reader:pptx", "the generated presentation's speaker notes are not in its Markdown: "+c03Clip(md), Bs(files["pptx"]))
				rd.Close()
			}
		}
		// (0d) extractors derived from one configured extractor, before any of them runs: each reads its own pages
		{
			var pages []string
			for k := 1; k <= 7; k++ {
				pages = append(pages, fmt.Sprintf("only on page %d", k))
			}
			path := tmpFile(r, ".pdf", mkPDFSimple(pages))
			txt := func(e *tabula.Extractor) string { t, _, err := e.Text(); return c03Str(t, err) }
			for _, n := range []int{1, 2, 3, 4, 5} {
				base := tabula.Open(path).PageRange(1, n)
				a, b := base.Pages(6), base.Pages(7)
				ta, tb, t0 := txt(a), txt(b), txt(base)
				wa, wb, w0 := txt(tabula.Open(path).PageRange(1, n).Pages(6)), txt(tabula.Open(path).PageRange(1, n).Pages(7)), txt(tabula.Open(path).PageRange(1, n))
				why := ""
				if ta != wa || tb != wb || t0 != w0 {
					why = fmt.Sprintf("PageRange(1,%d) then .Pages(6) and .Pages(7) derived side by side read %q and %q, the base %q; built alone they read %q, %q and %q", n, c03Clip(ta), c03Clip(tb), c03Clip(t0), c03Clip(wa), c03Clip(wb), c03Clip(w0))
				}
				r.Check(why == "", "history:derived-extractors", why, Bs(path))
			}
		}
		// (a) repetition
		reps := 7
		if thorough {
			reps = 25
		}
		base := make([][9]string, len(docs))
		for i, d := range docs {
			base[i] = c03Extract(d.path)
			for rep := 0; rep < reps; rep++ {
				got := c03Extract(d.path)
				r.Check(got == base[i], "repeat:"+d.kind, fmt.Sprintf("extracting the same %s again gives a different result: %v then %v", d.kind, base[i], got), Bs(d.kind))
			}
			r.Check(base[i][0] != "panic", "panic:"+d.kind, "extraction panicked", Bs(d.kind))
		}
		// (b) any order of preceding calls
		for round := 0; round < 3; round++ {
			order := make([]int, len(docs))
			for i := range order {
				order[i] = i
			}
			for i := len(order) - 1; i > 0; i-- {
				j := rng.Intn(i + 1)
				order[i], order[j] = order[j], order[i]
			}
			for pos, i := range order {
				got := c03Extract(docs[i].path)
				prev := "nothing"
				if pos > 0 {
					prev = docs[order[pos-1]].kind
				}
				r.Check(got == base[i], "history:"+docs[i].kind, fmt.Sprintf("a %s extracted after a %s gives a different result than before", docs[i].kind, prev), Bs(docs[i].kind+" after "+prev))
			}
		}
		// (c) concurrently
		g, rounds := 8, 3
		if thorough {
			g, rounds = 16, 20
		}
		for round := 0; round < rounds; round++ {
			var wg sync.WaitGroup
			results := make([][9]string, len(docs))
			sem := make(chan struct{}, g)
			for i := range docs {
				wg.Add(1)
				sem <- struct{}{}
				go func(i int) {
					defer wg.Done()
					defer func() { <-sem }()
					results[i] = c03Extract(docs[i].path)
				}(i)
			}
			wg.Wait()
			for i := range docs {
				r.Check(results[i] == base[i], "concurrent:"+docs[i].kind, fmt.Sprintf("a %s extracted next to other documents on %d goroutines gives a different result", docs[i].kind, g), Bs(docs[i].kind))
			}
		}
		// (d) the content stream parser after streams that end mid-operand or fail
		good := "BT /F1 12 Tf 72 700 Td (hello) Tj ET"
		want := fmt.Sprint(contentstream.NewParser([]byte(good)).Parse())
		for _, before := range []string{"1 2 3", "(unclosed", "[1 2", "<< /A 1", "/Name 5 5", "1 0 0 1 10 20", "q 1 2", "<4"} {
			contentstream.NewParser([]byte(before)).Parse()
			got := fmt.Sprint(contentstream.NewParser([]byte(good)).Parse())
			r.Check(got == want, "history:contentstream", fmt.Sprintf("a content stream parsed after %q reads as %s, alone as %s", before, got, want), Bs(before))
		}
		var wg sync.WaitGroup
		var mu sync.Mutex
		var bad []string
		for k := 0; k < 8; k++ {
			wg.Add(1)
			go func(k int) {
				defer wg.Done()
				prog := fmt.Sprintf("%d %d %d rg (s%d) Tj", k, k+1, k+2, k)
				for n := 0; n < 200; n++ {
					ops, err := contentstream.NewParser([]byte(prog)).Parse()
					ok := err == nil && len(ops) == 2 && len(ops[0].Operands) == 3 && len(ops[1].Operands) == 1
					if !ok {
						mu.Lock()
						bad = append(bad, fmt.Sprintf("%q reads as %v", prog, ops))
						mu.Unlock()
						return
					}
				}
			}(k)
		}
		wg.Wait()
		r.Check(len(bad) == 0, "concurrent:contentstream", fmt.Sprintf("content streams parsed next to each other: %v", bad), nil)
		for _, d := range docs {
			os.Remove(d.path)
		}
		// the translator's list of package-level variables written outside init: the implementation's
		// side claims there are none; the model side prints what the translator found
		r.Case(L(I(0)), L(), "mutable-globals", true)
		r.Case(L(I(1)), L(Bs("tables.globalRegistry")), "globals-with-method-calls", true)
		r.Case(L(I(2)), L(Bs("font.MacRomanEncoding (returned)"), Bs("font.PDFDocEncoding (returned)"), Bs("font.StandardEncodingTable (returned)"), Bs("font.SymbolEncoding (returned)"), Bs("font.WinAnsiEncoding (returned)"), Bs("font.ZapfDingbatsEncoding (returned)")), "aliased-globals", true)
		r.Case(L(I(3)), L(Bs("core.Dict.Keys: append keys"), Bs("core.Dict.String: append parts"), Bs("epubdoc.Reader.findNCX: early return"), Bs("epubdoc.Reader.findNavDocument: early return"), Bs("reader.Reader.ExtractPageImages: append images"), Bs("reader.Reader.resolveDeep: early return"), Bs("resolver.ObjectResolver.resolve: early return"), Bs("tables.DetectorRegistry.List: append names")), "map-order-sinks", true)
	}
}
