package main

import (
	"fmt"
	"os"
	"strings"

	"github.com/tsawler/tabula/core"
	"github.com/tsawler/tabula/reader"
)

type c04put struct {
	num    int
	del    bool
	kind   int // 0 dict, 1 int, 2 stream with direct length, 3 stream with indirect length
	tok    int
	packed bool
	big    bool
}

// c04Token: what a looked-up object says about itself (-1 error)
func c04Token(o core.Object, err error) int {
	if err != nil {
		return -1
	}
	switch x := o.(type) {
	case core.Int:
		return int(x)
	case core.Dict:
		if t, ok := x.Get("T").(core.Int); ok {
			return int(t)
		}
		return -5
	case *core.Stream:
		if tn, ok := x.Dict.Get("Type").(core.Name); ok {
			if tn == "ObjStm" {
				return -3
			}
			if tn == "XRef" {
				return -4
			}
		}
		data, derr := x.Decode()
		if derr != nil {
			return -6
		}
		i := strings.LastIndex(string(data), "tok=")
		if i < 0 {
			return -7
		}
		var t int
		fmt.Sscanf(string(data[i+4:]), "%d", &t)
		return t
	}
	return -8
}

func init() {
	props["C04"] = func(r *Run, rng *RNG) {
		thorough := r.Tier == "thorough"
		r.Rule = "revision histories of 1..4 revisions over 1..8 object numbers: each revision puts (as dictionary, integer, stream with direct length, stream with an indirect length object; stream bodies of 20..9000 bytes) or deletes a random subset; per revision a classic cross-reference table, a hybrid table with /XRefStm, or a cross-reference stream (plain or Flate, widths [1 4 2], [1 3 1], [2 8 2] or [0 4 2] where no entry needs a type), in stream revisions non-stream objects packed into one or two object streams; lookups: 10..16 operations drawn from all object numbers incl. never-defined ones, the length objects, the object streams and cross-reference streams, with repeats and cache clears, each history also with the reversed order of lookups, and with every object looked up once in ascending and once in descending order. non-trivial = at least 2 revisions"
		n := 150
		if thorough {
			n = 4000
		}
		tok := 1000
		for it := 0; it < n; it++ {
			nobj := rng.Range(1, 8)
			nrev := rng.Range(1, 4)
			history := make([][]c04put, nrev)
			newest := map[int]int{} // object number -> token or -1
			var revs []pdfRevision
			lenNum := 40
			for ri := 0; ri < nrev; ri++ {
				rev := pdfRevision{packed: map[int][]pdfObj{}}
				rev.xrefStm = rng.Bool()
				// a table revision may be hybrid: its packed objects are listed by a cross-reference stream named /XRefStm
				rev.hybrid = !rev.xrefStm && rng.Chance(1, 3)
				rev.xrefNum = 90 + ri
				switch {
				case rev.hybrid:
					r.Dist["revision:hybrid"]++
				case rev.xrefStm:
					r.Dist["revision:stream"]++
				default:
					r.Dist["revision:table"]++
				}
				rev.flate = rng.Bool()
				needsType := false
				for num := 1; num <= nobj; num++ {
					if ri > 0 && rng.Chance(1, 2) {
						continue
					}
					if ri == 0 && rng.Chance(1, 5) {
						continue
					}
					p := c04put{num: num}
					if ri > 0 && rng.Chance(1, 4) {
						p.del = true
						rev.deleted = append(rev.deleted, num)
						newest[num] = -1
						history[ri] = append(history[ri], p)
						needsType = true
						continue
					}
					tok++
					p.tok = tok
					p.kind = rng.Intn(4)
					p.big = rng.Chance(1, 3)
					body := ""
					switch p.kind {
					case 0:
						body = fmt.Sprintf("<< /T %d /Rev %d >>", p.tok, ri)
					case 1:
						body = fmt.Sprintf("%d", p.tok)
					case 2, 3:
						size := rng.Range(20, 200)
						if p.big {
							size = rng.Range(5000, 9000)
						}
						data := strings.Repeat("x", size) + fmt.Sprintf(" tok=%d", p.tok)
						if p.kind == 2 {
							body = fmt.Sprintf("<< /Length %d >>\nstream\n%s\nendstream", len(data), data)
						} else {
							lenNum++
							body = fmt.Sprintf("<< /Length %d 0 R >>\nstream\n%s\nendstream", lenNum, data)
							lo := pdfObj{lenNum, fmt.Sprintf("%d", len(data))}
							// the length object before or after the stream
							if rng.Bool() {
								rev.plain = append(rev.plain, lo)
								rev.plain = append(rev.plain, pdfObj{num, body})
							} else {
								rev.plain = append(rev.plain, pdfObj{num, body})
								rev.plain = append(rev.plain, lo)
							}
							newest[lenNum] = len(data)
							body = ""
						}
					}
					if body != "" {
						if (rev.xrefStm || rev.hybrid) && p.kind <= 1 && rng.Chance(2, 3) {
							p.packed = true
							sn := 60 + 2*ri + rng.Intn(2)
							rev.packed[sn] = append(rev.packed[sn], pdfObj{num, body})
							needsType = true
						} else {
							rev.plain = append(rev.plain, pdfObj{num, body})
						}
					}
					newest[num] = p.tok
					history[ri] = append(history[ri], p)
				}
				if ri == 0 {
					needsType = true // the free head entry
				}
				if rev.hybrid {
					rev.widths = [][3]int{{1, 4, 2}, {1, 3, 1}, {2, 8, 2}}[rng.Intn(3)]
					newest[rev.xrefNum] = -4
				}
				if rev.xrefStm {
					ws := [][3]int{{1, 4, 2}, {1, 3, 1}, {2, 8, 2}}
					rev.widths = ws[rng.Intn(len(ws))]
					if !needsType && rng.Bool() {
						rev.widths = [3]int{0, 4, 2}
					}
					newest[rev.xrefNum] = -4
				}
				for sn := range rev.packed {
					newest[sn] = -3
				}
				revs = append(revs, rev)
			}
			w := pdfWrite(revs)
			path := tmpFile(r, ".pdf", w.data)
			// the model's view: sections as written, and what stands at each offset
			secV := VL{}
			for _, sec := range w.sections {
				sv := VL{}
				for _, e := range sec {
					sv = append(sv, L(I(e.num), I(e.kind), I64(e.a), I(e.b)))
				}
				secV = append(secV, sv)
			}
			fileV := VL{}
			for ri, rev := range revs {
				_ = ri
				for off, num := range w.offsets {
					_ = off
					_ = num
				}
				_ = rev
			}
			// contents by object number and revision order: walk the written offsets
			type content struct {
				num int
				v   V
			}
			contents := map[int64]content{}
			for ri, rev := range revs {
				findOff := func(num int) int64 {
					for _, e := range w.sections[ri] {
						if e.num == num && e.kind == 1 {
							return e.a
						}
					}
					return -1
				}
				for _, o := range rev.plain {
					off := findOff(o.num)
					var v V
					switch {
					case strings.Contains(o.body, "0 R >>"):
						var l, t int
						fmt.Sscanf(o.body, "<< /Length %d 0 R", &l)
						i := strings.LastIndex(o.body, "tok=")
						fmt.Sscanf(o.body[i+4:], "%d", &t)
						v = L(I(1), I(t), I(l))
					case strings.Contains(o.body, "stream"):
						var t int
						i := strings.LastIndex(o.body, "tok=")
						fmt.Sscanf(o.body[i+4:], "%d", &t)
						v = L(I(1), I(t), I(-1))
					case strings.HasPrefix(o.body, "<<"):
						var t int
						fmt.Sscanf(o.body, "<< /T %d", &t)
						v = L(I(0), I(t), I(0))
					default:
						var t int
						fmt.Sscanf(o.body, "%d", &t)
						v = L(I(0), I(t), I(1))
					}
					contents[off] = content{o.num, v}
				}
				for sn, members := range rev.packed {
					mv := VL{}
					for _, m := range members {
						var t, isInt int
						if strings.HasPrefix(m.body, "<<") {
							fmt.Sscanf(m.body, "<< /T %d", &t)
						} else {
							fmt.Sscanf(m.body, "%d", &t)
							isInt = 1
						}
						mv = append(mv, L(I(m.num), I(t), I(isInt)))
					}
					contents[findOff(sn)] = content{sn, L(I(2), mv)}
				}
				if rev.xrefStm {
					contents[findOff(rev.xrefNum)] = content{rev.xrefNum, L(I(0), I(-4), I(0))}
				}
			}
			for off, c := range contents {
				fileV = append(fileV, L(I64(off), I(c.num), c.v))
			}
			sortVL(fileV)
			// lookups
			var cand []int
			for num := 0; num <= nobj+1; num++ {
				cand = append(cand, num)
			}
			for k := 41; k <= lenNum; k++ {
				cand = append(cand, k)
			}
			for ri, rev := range revs {
				if rev.xrefStm {
					cand = append(cand, rev.xrefNum)
				}
				for sn := range rev.packed {
					cand = append(cand, sn)
				}
				_ = ri
			}
			var ops []int // object number, or -1 for ClearCache
			for k := rng.Range(10, 16); k > 0; k-- {
				if rng.Chance(1, 8) {
					ops = append(ops, -1)
				} else {
					ops = append(ops, cand[rng.Intn(len(cand))])
				}
			}
			for pass := 0; pass < 4; pass++ {
				seq := append([]int{}, ops...)
				if pass >= 2 {
					// every object once, in ascending and in descending order: for any two objects
					// one of the passes asks for the one before the other
					seq = append([]int{}, cand...)
				}
				if pass%2 == 1 {
					for i, j := 0, len(seq)-1; i < j; i, j = i+1, j-1 {
						seq[i], seq[j] = seq[j], seq[i]
					}
				}
				rd, err := reader.Open(path)
				opsV, outV := VL{}, VL{}
				for _, op := range seq {
					opsV = append(opsV, I(op))
				}
				cv := L(secV, fileV, opsV)
				if err != nil {
					r.Case(cv, L(I(-9)), "open-failed", false)
					r.Check(false, "open", "the written file does not open: "+err.Error(), cv)
					continue
				}
				okAll, why := true, ""
				for _, op := range seq {
					if op < 0 {
						rd.ClearCache()
						outV = append(outV, I(0))
						continue
					}
					got := func() (g int) {
						defer func() {
							if recover() != nil {
								g = -99
							}
						}()
						return c04Token(rd.GetObject(op))
					}()
					outV = append(outV, I(got))
					want, defined := newest[op]
					if !defined {
						want = -1
					}
					if got != want && okAll {
						okAll, why = false, fmt.Sprintf("object %d looked up as %d, the newest revision says %d", op, got, want)
					}
				}
				rd.Close()
				r.Case(cv, outV, fmt.Sprintf("history:%drev", nrev), nrev >= 2)
				r.Check(okAll, "newest-revision", why, cv)
			}
			os.Remove(path)
		}
		// what a lookup answers does not depend on the other ways the same reader was asked before: resolving
		// references (Resolve, ResolveReference, ResolveDeep) in any order between lookups changes no later answer
		{
			objs := []string{
				"<< /Type /Catalog /Pages 2 0 R /Names [3 0 R 4 0 R (direct) [5 0 R]] >>",
				"<< /Type /Pages /Kids [] /Count 0 >>",
				"[4 0 R 5 0 R 6 0 R]",
				"<< /A [5 0 R 6 0 R] /B 6 0 R /C << /D [3 0 R] >> >>",
				"(five)",
				"66",
			}
			path := tmpFile(r, ".pdf", c02RawPDF(objs, ""))
			show := func(o core.Object, err error) string {
				if err != nil {
					return "error: " + err.Error()
				}
				return Str(c06Obj(o)) // dictionaries by sorted key
			}
			fresh := map[int]string{}
			for n := 1; n <= 6; n++ {
				if rd, err := reader.Open(path); err == nil {
					fresh[n] = show(rd.GetObject(n))
					rd.Close()
				}
			}
			drng := NewRNG(0xC04D)
			for trial := 0; trial < 40; trial++ {
				rd, err := reader.Open(path)
				if err != nil {
					r.Check(false, "lookup-history", "generated file does not open: "+err.Error(), Bs(path))
					break
				}
				why := ""
				var hist []string
				for step := 0; step < 12 && why == ""; step++ {
					n := drng.Range(1, 6)
					switch drng.Intn(5) {
					case 0:
						hist = append(hist, fmt.Sprintf("ResolveDeep(%d 0 R)", n))
						rd.ResolveDeep(core.IndirectRef{Number: n})
					case 1:
						hist = append(hist, fmt.Sprintf("ResolveDeep(GetObject(%d))", n))
						if o, err := rd.GetObject(n); err == nil {
							rd.ResolveDeep(o)
						}
					case 2:
						hist = append(hist, fmt.Sprintf("ResolveReference(%d 0 R)", n))
						rd.ResolveReference(core.IndirectRef{Number: n})
					case 3:
						hist = append(hist, "ClearCache")
						rd.ClearCache()
					default:
						hist = append(hist, fmt.Sprintf("GetObject(%d)", n))
						if got := show(rd.GetObject(n)); got != fresh[n] {
							why = fmt.Sprintf("after %v object %d is %s; a fresh reader says %s", hist, n, got, fresh[n])
						}
					}
				}
				for n := 1; n <= 6 && why == ""; n++ {
					if got := show(rd.GetObject(n)); got != fresh[n] {
						why = fmt.Sprintf("after %v object %d is %s; a fresh reader says %s", hist, n, got, fresh[n])
					}
				}
				rd.Close()
				r.Check(why == "", "lookup-history", why, Bs(path))
			}
		}
	}
}

func sortVL(v VL) {
	for i := 1; i < len(v); i++ {
		for j := i; j > 0 && Str(v[j]) < Str(v[j-1]); j-- {
			v[j], v[j-1] = v[j-1], v[j]
		}
	}
}
