package main

import (
	"bytes"
	"compress/zlib"
	"fmt"
	"io"

	"github.com/tsawler/tabula/core"
)

// ---------- independent encoders (the "conforming encoder" of the property)

var c05WS = []byte{' ', '\t', '\r', '\n', '\f', 0}

// spelling policy: 0 plain upper+EOD, 1 lower+EOD, 2 whitespace everywhere,
// 3 no EOD, 4 EOD + trailing garbage, 5 mixed case + ws + EOD + garbage
func hexEncode(x []byte, pol int, rng *RNG) []byte {
	var b bytes.Buffer
	ws := func() {
		if pol == 2 || pol == 5 {
			for k := rng.Intn(3); k > 0; k-- {
				b.WriteByte(c05WS[rng.Intn(len(c05WS))])
			}
		}
	}
	digit := func(d byte) {
		up := "0123456789ABCDEF"
		lo := "0123456789abcdef"
		switch pol {
		case 1:
			b.WriteByte(lo[d])
		case 5:
			if rng.Bool() {
				b.WriteByte(lo[d])
			} else {
				b.WriteByte(up[d])
			}
		default:
			b.WriteByte(up[d])
		}
	}
	ws()
	for i, c := range x {
		digit(c >> 4)
		ws()
		// a final low nibble of 0 may be omitted (odd number of digits)
		if i == len(x)-1 && c&15 == 0 && pol >= 3 && rng.Bool() {
			ws()
			continue
		}
		digit(c & 15)
		ws()
	}
	if pol != 3 {
		b.WriteByte('>')
	}
	if pol == 4 || pol == 5 {
		b.Write([]byte("garbage!\x00\xff>~"))
	}
	return b.Bytes()
}

func a85Encode(x []byte, pol int, rng *RNG) []byte {
	var b bytes.Buffer
	ws := func() {
		if pol == 2 || pol == 5 {
			for k := rng.Intn(3); k > 0; k-- {
				b.WriteByte(c05WS[rng.Intn(len(c05WS))])
			}
		}
	}
	useZ := pol != 1 // policy 1 never uses the z shortcut
	ws()
	for i := 0; i < len(x); i += 4 {
		n := len(x) - i
		if n > 4 {
			n = 4
		}
		var grp [4]byte
		copy(grp[:], x[i:i+n])
		v := uint64(grp[0])<<24 | uint64(grp[1])<<16 | uint64(grp[2])<<8 | uint64(grp[3])
		if n == 4 && v == 0 && useZ {
			b.WriteByte('z')
			ws()
			continue
		}
		var d [5]byte
		for k := 4; k >= 0; k-- {
			d[k] = byte(v % 85)
			v /= 85
		}
		for k := 0; k < n+1; k++ {
			b.WriteByte(d[k] + '!')
			ws()
		}
	}
	if pol != 3 {
		b.WriteString("~>")
	}
	if pol == 4 || pol == 5 {
		b.Write([]byte("garbage!\x00\xffz~>"))
	}
	return b.Bytes()
}

func paethRef(a, b, c int) int {
	p := a + b - c
	pa, pb, pc := p-a, p-b, p-c
	if pa < 0 {
		pa = -pa
	}
	if pb < 0 {
		pb = -pb
	}
	if pc < 0 {
		pc = -pc
	}
	if pa <= pb && pa <= pc {
		return a
	}
	if pb <= pc {
		return b
	}
	return c
}

// PNG prediction (encoder side): raw rows of rowlen bytes, a filter type per row.
func pngPredict(colors, columns int, types []byte, raw []byte) []byte {
	rowlen := colors * columns
	var out []byte
	for r := 0; r < len(types); r++ {
		row := raw[r*rowlen : (r+1)*rowlen]
		var prev []byte
		if r > 0 {
			prev = raw[(r-1)*rowlen : r*rowlen]
		}
		out = append(out, types[r])
		for i := 0; i < rowlen; i++ {
			left, up, ul := 0, 0, 0
			if i >= colors {
				left = int(row[i-colors])
			}
			if prev != nil {
				up = int(prev[i])
				if i >= colors {
					ul = int(prev[i-colors])
				}
			}
			var p int
			switch types[r] {
			case 0:
				p = 0
			case 1:
				p = left
			case 2:
				p = up
			case 3:
				p = (left + up) / 2
			case 4:
				p = paethRef(left, up, ul)
			}
			out = append(out, byte(int(row[i])-p))
		}
	}
	return out
}

func tiffPredict(colors, columns int, raw []byte) []byte {
	rowlen := colors * columns
	out := make([]byte, len(raw))
	for i := range raw {
		col := i % rowlen
		if col < colors {
			out[i] = raw[i]
		} else {
			out[i] = raw[i] - raw[i-colors]
		}
	}
	return out
}

func deflate(x []byte) []byte {
	var b bytes.Buffer
	w := zlib.NewWriter(&b)
	w.Write(x)
	w.Close()
	return b.Bytes()
}

func inflateRef(x []byte) ([]byte, error) {
	r, err := zlib.NewReader(bytes.NewReader(x))
	if err != nil {
		return nil, err
	}
	defer r.Close()
	var b bytes.Buffer
	if _, err := io.Copy(&b, r); err != nil {
		return nil, err
	}
	return b.Bytes(), nil
}

// ---------- stream construction

type c05Param struct {
	key  string
	obj  core.Object // as stored in the dict
	kind int         // 0 int, 1 other
	z    int64
}

type c05Stage struct {
	name   string         // "" = element that is not a name
	params []c05Param     // nil = no dict for this stage
	hasP   bool
}

// parms shape: 0 absent, 1 single dict (first stage's params), 2 array per stage
func c05Build(stages []c05Stage, single bool, parmsShape int, data []byte) (*core.Stream, V) {
	dict := core.Dict{}
	mkDict := func(ps []c05Param) core.Dict {
		d := core.Dict{}
		for _, p := range ps {
			d[p.key] = p.obj
		}
		return d
	}
	vParams := func(ps []c05Param) V {
		var l VL
		for _, p := range ps {
			l = append(l, L(Bs(p.key), I(p.kind), I64(p.z)))
		}
		if l == nil {
			l = VL{}
		}
		return l
	}
	var fv V
	switch {
	case len(stages) == 0:
		fv = L(I(0))
	case single:
		dict["Filter"] = core.Name(stages[0].name)
		fv = L(I(1), Bs(stages[0].name))
	default:
		var arr core.Array
		var l VL
		for _, s := range stages {
			if s.name == "" {
				arr = append(arr, core.Int(7))
				l = append(l, L())
			} else {
				arr = append(arr, core.Name(s.name))
				l = append(l, L(Bs(s.name)))
			}
		}
		dict["Filter"] = arr
		fv = L(I(2), l)
	}
	var pv V = L(I(0))
	switch parmsShape {
	case 1:
		var ps []c05Param
		for _, s := range stages {
			if s.hasP {
				ps = s.params
				break
			}
		}
		dict["DecodeParms"] = mkDict(ps)
		pv = L(I(1), vParams(ps))
	case 2:
		var arr core.Array
		var l VL
		for _, s := range stages {
			if s.hasP {
				arr = append(arr, mkDict(s.params))
				l = append(l, L(vParams(s.params)))
			} else {
				arr = append(arr, core.Null{})
				l = append(l, L())
			}
		}
		dict["DecodeParms"] = arr
		if l == nil {
			l = VL{}
		}
		pv = L(I(2), l)
	case 3:
		dict["DecodeParms"] = core.Null{}
	}
	st := &core.Stream{Dict: dict, Data: data}
	return st, L(fv, pv, VB(data))
}

func c05Decode(st *core.Stream) (out []byte, err error, panicked bool) {
	defer func() {
		if r := recover(); r != nil {
			panicked = true
		}
	}()
	out, err = st.Decode()
	return
}

func c05Res(out []byte, err error, panicked bool) V {
	if panicked {
		return RPanic()
	}
	if err != nil {
		return RErr()
	}
	if out == nil {
		out = []byte{}
	}
	return ROk(VB(out))
}

func isFlate(n string) bool { return n == "FlateDecode" || n == "Fl" }

// inflate oracle table: for every Flate stage, (input at that stage -> zlib result).
// The input at stage i is obtained by decoding the prefix chain with the
// implementation itself.
func c05Table(stages []c05Stage, single bool, parmsShape int, data []byte) V {
	var tbl VL
	for i, s := range stages {
		if !isFlate(s.name) {
			continue
		}
		in := data
		if i > 0 {
			pst, _ := c05Build(stages[:i], false, parmsShape, data)
			o, err, p := c05Decode(pst)
			if err != nil || p {
				break
			}
			in = o
		}
		if in == nil {
			in = []byte{}
		}
		o, err := inflateRef(in)
		if err != nil {
			tbl = append(tbl, L(VB(in), RErr()))
		} else {
			if o == nil {
				o = []byte{}
			}
			tbl = append(tbl, L(VB(in), ROk(VB(o))))
		}
	}
	if tbl == nil {
		tbl = VL{}
	}
	return tbl
}

type c05Case struct {
	stages     []c05Stage
	single     bool
	parmsShape int
	data       []byte
	want       []byte // expected decoding; nil when wantErr or unknown
	wantErr    bool
	known      bool // want / wantErr is meaningful
	tag        string
	class      string
}

func c05Run(r *Run, c c05Case) {
	st, cv := c05Build(c.stages, c.single, c.parmsShape, c.data)
	tbl := c05Table(c.stages, c.single, c.parmsShape, c.data)
	out, err, p := c05Decode(st)
	cvl := cv.(VL)
	caseV := L(cvl[0], cvl[1], cvl[2], tbl)
	nontriv := err == nil && !p && len(out) > 0 && len(c.stages) > 0
	r.Case(caseV, c05Res(out, err, p), c.tag, nontriv)
	if p {
		r.Check(false, "panic:"+c.class, "Decode panicked", caseV)
		return
	}
	if c.known {
		if c.wantErr {
			r.Check(err != nil, "no-error:"+c.class, fmt.Sprintf("undecodable data returned %d bytes without error", len(out)), caseV)
		} else {
			ok := err == nil && bytes.Equal(out, c.want)
			r.Check(ok, "roundtrip:"+c.class, fmt.Sprintf("decode(encode(x)) != x (err=%v)", err), caseV)
		}
	}
}

func intParam(key string, z int, rng *RNG) c05Param {
	// Int, or an integral Real (getIntParam truncates float64)
	if rng != nil && rng.Chance(1, 6) {
		return c05Param{key, core.Real(float64(z)), 0, int64(z)}
	}
	return c05Param{key, core.Int(z), 0, int64(z)}
}

func predParams(pred, colors, columns int, rng *RNG, explicitBpc bool) []c05Param {
	ps := []c05Param{intParam("Predictor", pred, rng)}
	if colors != 1 || rng.Bool() {
		ps = append(ps, intParam("Colors", colors, rng))
	}
	if columns != 1 || rng.Bool() {
		ps = append(ps, intParam("Columns", columns, rng))
	}
	if explicitBpc {
		ps = append(ps, intParam("BitsPerComponent", 8, rng))
	}
	return ps
}

func c05Payload(rng *RNG, n int) []byte {
	switch rng.Intn(6) {
	case 0:
		return make([]byte, n)
	case 1:
		return bytes.Repeat([]byte{0xff}, n)
	case 2:
		b := make([]byte, n)
		per := rng.Range(1, 7)
		for i := range b {
			b[i] = byte(i % per * 37)
		}
		return b
	default:
		return rng.Bytes(n)
	}
}

// encodeStage encodes x for one stage kind and returns the stage descriptor.
// kinds: 0 Flate plain, 1 Flate+PNG, 2 Flate+TIFF, 3 AHx, 4 A85, 5 Flate with Predictor 1
func c05EncodeStage(kind int, x []byte, rng *RNG) (c05Stage, []byte, bool) {
	abbrev := rng.Bool()
	nm := func(full, ab string) string {
		if abbrev {
			return ab
		}
		return full
	}
	switch kind {
	case 0:
		return c05Stage{name: nm("FlateDecode", "Fl")}, deflate(x), true
	case 5:
		return c05Stage{name: nm("FlateDecode", "Fl"), params: []c05Param{intParam("Predictor", 1, rng)}, hasP: true}, deflate(x), true
	case 1, 2:
		colors := rng.Range(1, 4)
		columns := rng.Range(1, 8)
		rowlen := colors * columns
		if len(x)%rowlen != 0 {
			// choose geometry dividing len(x): fall back to 1 x len or 1x1
			colors = 1
			columns = 1
			if len(x) > 0 && len(x) <= 64 && rng.Bool() {
				columns = len(x)
			}
			rowlen = columns
		}
		if kind == 2 {
			enc := tiffPredict(colors, columns, x)
			return c05Stage{name: nm("FlateDecode", "Fl"), params: predParams(2, colors, columns, rng, rng.Bool()), hasP: true}, deflate(enc), true
		}
		rows := len(x) / rowlen
		types := make([]byte, rows)
		for i := range types {
			types[i] = byte(rng.Intn(5))
		}
		enc := pngPredict(colors, columns, types, x)
		return c05Stage{name: nm("FlateDecode", "Fl"), params: predParams(rng.Range(10, 15), colors, columns, rng, rng.Bool()), hasP: true}, deflate(enc), true
	case 3:
		return c05Stage{name: nm("ASCIIHexDecode", "AHx")}, hexEncode(x, rng.Intn(6), rng), true
	case 4:
		return c05Stage{name: nm("ASCII85Decode", "A85")}, a85Encode(x, rng.Intn(6), rng), true
	}
	return c05Stage{}, nil, false
}

func init() {
	props["C05"] = func(r *Run, rng *RNG) {
		thorough := r.Tier == "thorough"
		r.Rule = "cases: (A) every byte string of length<=3 over {00,01,7f,80,ff} x {AHx,A85} x 6 spelling policies; (B) predictor sweep Colors 1..4 x Columns 1..8(64) x rows 0..2(3) x every per-row type vector (random data); (C) filter chains up to length 2(3) over {Fl, Fl+PNG, Fl+TIFF, Fl+Predictor1, AHx, A85} x DecodeParms as dict/array/null/absent; (D) malformed: bad characters, oversized A85 groups, lone digits, bad row types, bad lengths, zero/negative geometry, corrupt zlib, random bytes. non-trivial = decodes without error to a non-empty result through >=1 filter; distinct = distinct case text"
		// (A)
		alpha := []byte{0x00, 0x01, 0x7f, 0x80, 0xff}
		var strs [][]byte
		strs = append(strs, []byte{})
		for l := 1; l <= 3; l++ {
			idx := make([]int, l)
			for {
				s := make([]byte, l)
				for i, k := range idx {
					s[i] = alpha[k]
				}
				strs = append(strs, s)
				j := l - 1
				for j >= 0 {
					idx[j]++
					if idx[j] < len(alpha) {
						break
					}
					idx[j] = 0
					j--
				}
				if j < 0 {
					break
				}
			}
		}
		for _, x := range strs {
			for pol := 0; pol < 6; pol++ {
				c := c05Case{stages: []c05Stage{{name: "AHx"}}, single: true, data: hexEncode(x, pol, rng), want: x, known: true, tag: "A:hex", class: "hex"}
				c05Run(r, c)
				c = c05Case{stages: []c05Stage{{name: "ASCII85Decode"}}, single: pol%2 == 0, data: a85Encode(x, pol, rng), want: x, known: true, tag: "A:a85", class: "a85"}
				c05Run(r, c)
			}
		}
		// a85 with 4-byte groups incl. zero groups and max groups
		for _, x := range [][]byte{{0, 0, 0, 0}, {0xff, 0xff, 0xff, 0xff}, {0, 0, 0, 0, 0, 0, 0, 0, 1}, {0xff, 0xff, 0xff, 0xff, 0xff}, {0, 0, 0, 0, 0xff, 0xff, 0xff}} {
			for pol := 0; pol < 6; pol++ {
				c05Run(r, c05Case{stages: []c05Stage{{name: "A85"}}, single: true, data: a85Encode(x, pol, rng), want: x, known: true, tag: "A:a85", class: "a85"})
			}
		}
		// (B)
		maxCols := 8
		maxRows := 2
		if thorough {
			maxCols = 64
			maxRows = 3
		}
		for colors := 1; colors <= 4; colors++ {
			for columns := 1; columns <= maxCols; columns++ {
				if thorough && columns > 12 && columns%7 != 0 && columns != 64 {
					continue
				}
				rowlen := colors * columns
				for rows := 0; rows <= maxRows; rows++ {
					nvec := 1
					for i := 0; i < rows; i++ {
						nvec *= 5
					}
					for vec := 0; vec < nvec; vec++ {
						types := make([]byte, rows)
						v := vec
						for i := range types {
							types[i] = byte(v % 5)
							v /= 5
						}
						raw := c05Payload(rng, rows*rowlen)
						enc := pngPredict(colors, columns, types, raw)
						st := c05Stage{name: "FlateDecode", params: predParams(10+vec%6, colors, columns, rng, vec%2 == 0), hasP: true}
						c05Run(r, c05Case{stages: []c05Stage{st}, single: vec%3 != 0, parmsShape: 1 + (vec%3)%2*0, data: deflate(enc), want: raw, known: true, tag: "B:png", class: "png"})
					}
					raw := c05Payload(rng, rows*rowlen)
					st := c05Stage{name: "Fl", params: predParams(2, colors, columns, rng, rows%2 == 0), hasP: true}
					c05Run(r, c05Case{stages: []c05Stage{st}, single: true, parmsShape: 1, data: deflate(tiffPredict(colors, columns, raw)), want: raw, known: true, tag: "B:tiff", class: "tiff"})
				}
			}
		}
		// (C) chains
		maxLen := 2
		nPer := 3
		if thorough {
			maxLen = 3
			nPer = 6
		}
		var chains [][]int
		var rec func(cur []int)
		rec = func(cur []int) {
			if len(cur) > 0 {
				chains = append(chains, append([]int{}, cur...))
			}
			if len(cur) == maxLen {
				return
			}
			for k := 0; k < 6; k++ {
				rec(append(cur, k))
			}
		}
		rec(nil)
		for _, ch := range chains {
			for rep := 0; rep < nPer; rep++ {
				n := rng.Intn(40)
				if thorough && rep == 0 {
					n = rng.Intn(6000) // beyond the 4 KiB read-ahead; the extracted model is quadratic in the payload
				}
				x := c05Payload(rng, n)
				// encode in reverse: the last filter of the chain is applied first by the encoder
				data := x
				stages := make([]c05Stage, len(ch))
				ok := true
				for i := len(ch) - 1; i >= 0; i-- {
					var st c05Stage
					st, data, ok = c05EncodeStage(ch[i], data, rng)
					stages[i] = st
				}
				if !ok {
					continue
				}
				nWithP := 0
				for _, s := range stages {
					if s.hasP {
						nWithP++
					}
				}
				// shape: array always legal; single dict legal when <=1 stage has params
				// and no other Flate stage would misread it
				shape := 2
				if nWithP == 0 {
					shape = []int{0, 2, 3}[rng.Intn(3)]
				} else if nWithP == 1 && len(stages) == 1 {
					shape = []int{1, 2}[rng.Intn(2)]
				}
				single := len(stages) == 1 && shape != 2 && rng.Bool()
				c05Run(r, c05Case{stages: stages, single: single, parmsShape: shape, data: data, want: x, known: true, tag: fmt.Sprintf("C:chain%d", len(ch)), class: "chain"})
			}
		}
		// no filter at all
		c05Run(r, c05Case{data: []byte("raw"), want: []byte("raw"), known: true, tag: "C:nofilter", class: "nofilter"})
		// (D) malformed
		bad := func(name string, data []byte, class string) {
			c05Run(r, c05Case{stages: []c05Stage{{name: name}}, single: true, data: data, wantErr: true, known: true, tag: "D:" + class, class: class})
		}
		for _, c := range []byte{'g', 'G', '~', '<', '(', 0x80, 0xff, 'x', '/'} {
			bad("AHx", []byte{'4', '1', c, '4', '2', '>'}, "hex-badchar")
			bad("AHx", []byte{'4', c, '>'}, "hex-badchar")
			bad("ASCIIHexDecode", []byte{c}, "hex-badchar")
		}
		for _, c := range []byte{'v', 'w', 'y', '{', '|', '}', 0x7f, 0x80, 0xff, 0x1f, 0x01} {
			bad("A85", []byte{'8', '7', c, 'c', 'U', '~', '>'}, "a85-badchar")
			bad("A85", []byte{c, '~', '>'}, "a85-badchar")
		}
		bad("A85", []byte("87zcU~>"), "a85-z-inside-group")
		bad("A85", []byte("~"), "a85-badchar")
		for _, g := range []string{"s8W-\"", "s8W-#", "uuuuu", "s8W.!", "t!!!!", "s9!!!"} {
			bad("A85", []byte(g+"~>"), "a85-group-overflow")
			bad("A85", []byte("87cUR"+g), "a85-group-overflow")
		}
		// partial groups whose padded value overflows
		for _, g := range []string{"s8W.", "uuuu", "uuu", "uu", "s9", "t!"} {
			bad("A85", []byte(g+"~>"), "a85-group-overflow")
		}
		for _, g := range []string{"!", "u", "87cUR!", "z5", "87cUR5~>"} {
			bad("A85", []byte(g), "a85-lone-digit")
		}
		// predictor faults
		badPred := func(ps []c05Param, raw []byte, class string) {
			st := c05Stage{name: "FlateDecode", params: ps, hasP: true}
			c05Run(r, c05Case{stages: []c05Stage{st}, single: true, parmsShape: 1, data: deflate(raw), wantErr: true, known: true, tag: "D:" + class, class: class})
		}
		for _, t := range []byte{5, 6, 9, 10, 255} {
			badPred(predParams(12, 1, 3, nil, false), []byte{t, 1, 2, 3}, "png-bad-rowtype")
			badPred(predParams(15, 2, 2, nil, true), []byte{0, 1, 2, 3, 4, t, 1, 2, 3, 4}, "png-bad-rowtype")
		}
		badPred(predParams(12, 1, 3, nil, false), []byte{0, 1, 2}, "png-bad-length")
		badPred(predParams(12, 1, 3, nil, false), []byte{0, 1, 2, 3, 0}, "png-bad-length")
		badPred(predParams(2, 2, 3, nil, false), []byte{0, 1, 2, 3, 0}, "tiff-bad-length")
		for _, g := range [][2]int{{0, 1}, {1, 0}, {-1, 1}, {1, -1}, {-1, -1}, {0, 0}, {1 << 40, 1 << 40}, {-3, 2}, {1 << 62, 4}, {1 << 32, 1 << 32}} {
			for _, pred := range []int{2, 10, 12, 15} {
				ps := []c05Param{intParam("Predictor", pred, nil), intParam("Colors", g[0], nil), intParam("Columns", g[1], nil)}
				badPred(ps, []byte{0, 1, 2, 3, 4, 5}, "pred-bad-geometry")
				badPred(ps, []byte{}, "pred-bad-geometry")
			}
		}
		for _, bpc := range []int{1, 2, 4, 16, 0, -8} {
			for _, pred := range []int{2, 11} {
				ps := []c05Param{intParam("Predictor", pred, nil), intParam("BitsPerComponent", bpc, nil)}
				badPred(ps, []byte{0, 1, 0, 1}, "pred-bad-bpc")
			}
		}
		for _, pred := range []int{0, 3, 9, 16, -1, 100} {
			badPred([]c05Param{intParam("Predictor", pred, nil)}, []byte{0, 1, 2}, "pred-unsupported")
		}
		// corrupt / truncated zlib
		z := deflate([]byte("hello hello hello hello"))
		bad("FlateDecode", z[:len(z)-3], "zlib-truncated")
		bad("Fl", append([]byte{0x12, 0x34}, z...), "zlib-bad-header")
		zz := append([]byte{}, z...)
		zz[len(zz)-1] ^= 0xff
		bad("Fl", zz, "zlib-bad-checksum")
		bad("Fl", []byte{}, "zlib-empty")
		// unsupported / unknown filters and non-name filter elements: error expected
		for _, n := range []string{"LZWDecode", "LZW", "RunLengthDecode", "RL", "JBIG2Decode", "Crypt", "Bogus", "flatedecode", "FL", ""} {
			bad(n, []byte("abc"), "unsupported-filter")
		}
		c05Run(r, c05Case{stages: []c05Stage{{name: "AHx"}, {name: ""}}, data: []byte("4142>"), wantErr: true, known: true, tag: "D:nonname", class: "filter-not-a-name"})
		// pass-through filters (documented: returned as is)
		c05Run(r, c05Case{stages: []c05Stage{{name: "DCTDecode"}}, single: true, data: []byte("jpeg"), want: []byte("jpeg"), known: true, tag: "C:passthrough", class: "passthrough"})
		c05Run(r, c05Case{stages: []c05Stage{{name: "AHx"}, {name: "JPXDecode"}}, data: []byte("6a70>"), want: []byte("jp"), known: true, tag: "C:passthrough", class: "passthrough"})
		// Predictor given as a non-integer: ignored (default 1)
		c05Run(r, c05Case{stages: []c05Stage{{name: "Fl", params: []c05Param{{"Predictor", core.Name("Up"), 1, 0}, {"Columns", core.Int(3), 0, 3}}, hasP: true}}, single: true, parmsShape: 1, data: deflate([]byte("abc")), want: []byte("abc"), known: true, tag: "C:params", class: "params"})
		// params array shorter than filter array; params array with a single filter name
		c05Run(r, c05Case{stages: []c05Stage{{name: "Fl", params: predParams(12, 1, 2, nil, false), hasP: true}}, single: true, parmsShape: 2, data: deflate([]byte{2, 1, 2}), tag: "C:params", class: "params"})
		// random bytes through every filter (only model agreement and no panic are checked)
		nRand := 600
		if thorough {
			nRand = 20000
		}
		names := []string{"AHx", "A85", "Fl"}
		a85alpha := []byte("!\"#$%&'()*+,-./0123456789:;<=>?@ABCDEFGHIJKLMNOPQRSTUVWXYZ[\\]^_`abcdefghijklmnopqrstu")
		for i := 0; i < nRand; i++ {
			name := names[rng.Intn(2)]
			n := rng.Intn(24)
			var data []byte
			switch rng.Intn(4) {
			case 0:
				data = rng.Bytes(n)
			case 1: // mostly valid a85 alphabet with noise
				data = make([]byte, n)
				for k := range data {
					if rng.Chance(1, 12) {
						data[k] = []byte{'z', '~', '>', ' ', '\n', 'v', 0}[rng.Intn(7)]
					} else {
						data[k] = a85alpha[rng.Intn(len(a85alpha))]
					}
				}
			case 2: // mostly hex
				data = make([]byte, n)
				for k := range data {
					if rng.Chance(1, 10) {
						data[k] = []byte{'>', ' ', '\n', 'g', 0, '~'}[rng.Intn(6)]
					} else {
						data[k] = "0123456789abcdefABCDEF"[rng.Intn(22)]
					}
				}
			default: // high-value a85 groups
				data = make([]byte, n)
				for k := range data {
					data[k] = "stu!~>z"[rng.Intn(7)]
				}
			}
			if rng.Chance(1, 5) {
				// two-stage chain with the other ascii filter
				c05Run(r, c05Case{stages: []c05Stage{{name: name}, {name: names[rng.Intn(2)]}}, data: data, tag: "D:random-chain", class: "random"})
			} else {
				c05Run(r, c05Case{stages: []c05Stage{{name: name}}, single: rng.Bool(), data: data, tag: "D:random", class: "random"})
			}
		}
		// random predictor input (arbitrary row types / geometry / lengths)
		nRandP := 300
		if thorough {
			nRandP = 10000
		}
		for i := 0; i < nRandP; i++ {
			colors := rng.Range(-1, 4)
			columns := rng.Range(-1, 6)
			pred := []int{1, 2, 10, 11, 12, 13, 14, 15, 3, 16}[rng.Intn(10)]
			raw := rng.Bytes(rng.Intn(30))
			if rng.Bool() {
				for k := range raw {
					if colors > 0 && columns > 0 && k%(colors*columns+1) == 0 {
						raw[k] = byte(rng.Intn(6))
					}
				}
			}
			ps := []c05Param{intParam("Predictor", pred, rng), intParam("Colors", colors, rng), intParam("Columns", columns, rng)}
			st := c05Stage{name: "Fl", params: ps, hasP: true}
			c05Run(r, c05Case{stages: []c05Stage{st}, single: rng.Bool(), parmsShape: 1 + rng.Intn(2), data: deflate(raw), tag: "D:random-pred", class: "random"})
		}
	}
}
