package main

import (
	"bytes"
	"fmt"
	"math"
	"sort"
	"strconv"
	"strings"
	"time"

	"github.com/tsawler/tabula/contentstream"
	"github.com/tsawler/tabula/core"
)

// authored objects
type c06obj struct {
	kind int // 0 null 1 bool 2 int 3 real 4 string 5 name 6 array 7 dict 8 ref
	b    bool
	i    int64
	lex  string // literal of a number as written
	m    int64  // real: mantissa and scale (normalised)
	k    int
	s    []byte
	arr  []*c06obj
	keys [][]byte
	n, g int64
}

func c06NormReal(lex string) (int64, int) {
	neg := strings.HasPrefix(lex, "-")
	body := strings.TrimLeft(lex, "+-")
	parts := strings.SplitN(body, ".", 2)
	frac := ""
	if len(parts) == 2 {
		frac = parts[1]
	}
	digits := parts[0] + frac
	m, _ := strconv.ParseInt(strings.TrimLeft(digits, "0")+"", 10, 64)
	if strings.TrimLeft(digits, "0") == "" {
		m = 0
	}
	k := len(frac)
	for k > 0 && m%10 == 0 {
		m /= 10
		k--
	}
	if neg {
		m = -m
	}
	return m, k
}

func (g *c06gen) obj(depth int, allowRef bool) *c06obj {
	max := 9
	if !allowRef {
		max = 8
	}
	k := g.rng.Intn(max)
	if depth >= 4 && (k == 6 || k == 7) {
		k = 2
	}
	o := &c06obj{kind: k}
	switch k {
	case 1:
		o.b = g.rng.Bool()
	case 2:
		vals := []int64{0, 1, -1, 7, 42, 255, -32768, 65535, 2147483647, -2147483648, 9223372036854775807, -9223372036854775808, 1000000}
		o.i = vals[g.rng.Intn(len(vals))]
		if g.rng.Bool() {
			o.i = int64(g.rng.Intn(2000)) - 1000
		}
		o.lex = strconv.FormatInt(o.i, 10)
		switch g.rng.Intn(6) {
		case 0:
			if o.i >= 0 {
				o.lex = "+" + o.lex
			}
		case 1:
			if o.i >= 0 {
				o.lex = "00" + o.lex
			} else {
				o.lex = "-0" + o.lex[1:]
			}
		}
	case 3:
		lits := []string{"3.14", "-.5", "4.", "+0.001", "00.10", "0.0", "-0.0", ".25", "123456.789", "-1.", "1000000.5", "0.000001", "+.5", "99999999.99"}
		o.lex = lits[g.rng.Intn(len(lits))]
		if g.rng.Bool() {
			o.lex = fmt.Sprintf("%d.%0*d", g.rng.Intn(1000), g.rng.Range(1, 4), g.rng.Intn(1000))
			if g.rng.Bool() {
				o.lex = "-" + o.lex
			}
		}
		o.m, o.k = c06NormReal(o.lex)
	case 4:
		o.s = g.bytesAny(g.rng.Intn(12))
	case 5:
		o.s = g.nameBytes(g.rng.Intn(8))
	case 6:
		for n := g.rng.Intn(5); n > 0; n-- {
			o.arr = append(o.arr, g.obj(depth+1, allowRef))
		}
	case 7:
		for n := g.rng.Intn(4); n > 0; n-- {
			key := g.nameBytes(g.rng.Range(1, 5))
			dup := false
			for _, k2 := range o.keys {
				if bytes.Equal(k2, key) {
					dup = true
				}
			}
			if dup {
				continue
			}
			o.keys = append(o.keys, key)
			o.arr = append(o.arr, g.obj(depth+1, allowRef))
		}
	case 8:
		o.n, o.g = int64(g.rng.Range(1, 9999)), int64(g.rng.Intn(3))
		if g.rng.Chance(1, 10) {
			o.g = 65535
		}
	}
	return o
}

type c06gen struct {
	rng    *RNG
	policy int // 0 minimal, 1 single blanks, 2 rich whitespace, 3 comments, 4 CR line ends, 5 CRLF
}

func (g *c06gen) bytesAny(n int) []byte {
	b := make([]byte, n)
	for i := range b {
		switch g.rng.Intn(6) {
		case 0:
			b[i] = []byte{'(', ')', '\\', '\r', '\n', '\t', 0, 0xFF, '%', '<', '>', '\b', '\f', ' '}[g.rng.Intn(14)]
		case 1:
			b[i] = byte(g.rng.Intn(256))
		case 2:
			b[i] = byte('0' + g.rng.Intn(10))
		default:
			b[i] = byte('a' + g.rng.Intn(26))
		}
	}
	return b
}

func (g *c06gen) nameBytes(n int) []byte {
	b := make([]byte, n)
	for i := range b {
		switch g.rng.Intn(5) {
		case 0:
			b[i] = []byte{' ', '#', '/', '(', ')', '%', '[', 0x80, 0xFF, '\t', 1, '<', '}'}[g.rng.Intn(13)]
		default:
			b[i] = byte('A' + g.rng.Intn(26))
		}
	}
	return b
}

func isRegular(c byte) bool {
	switch c {
	case ' ', '\t', '\n', '\r', '\f', 0, '(', ')', '<', '>', '[', ']', '{', '}', '/', '%':
		return false
	}
	return true
}

// sep: whitespace (and comments) between two tokens; need says a separator is required
func (g *c06gen) sep(need bool) string {
	nl := "\n"
	switch g.policy {
	case 4:
		nl = "\r"
	case 5:
		nl = "\r\n"
	}
	switch g.policy {
	case 0:
		if need {
			return " "
		}
		return ""
	case 1:
		return " "
	case 3, 4, 5:
		if g.policy == 3 {
			nl = []string{"\n", "\r", "\r\n"}[g.rng.Intn(3)]
		}
		if g.policy == 3 && g.rng.Bool() || g.rng.Chance(1, 5) {
			// one comment, or a run of comments with their own line ends
			// the percent sign is a delimiter: it may follow the previous token directly
			out := ""
			lead := []string{" ", "", "", "\t"}[g.rng.Intn(4)]
			for n := []int{1, 1, 2, 3}[g.rng.Intn(4)]; n > 0; n-- {
				out += lead + "%" + []string{"", " comment ) ( >> ", "% x", " 7 0 R"}[g.rng.Intn(4)] + nl
				lead = []string{" ", ""}[g.rng.Intn(2)]
			}
			return out
		}
		return nl
	}
	ws := []string{" ", "\t", "\n", "\r", "\f", "\x00", "\r\n", "  "}
	var b strings.Builder
	for n := g.rng.Range(1, 3); n > 0; n-- {
		b.WriteString(ws[g.rng.Intn(len(ws))])
	}
	return b.String()
}

func (g *c06gen) str(s []byte) string {
	if g.rng.Chance(1, 4) {
		// hex form, digits in either case, blanks between digits, sometimes an odd number of digits
		var b strings.Builder
		b.WriteString("<")
		for i, c := range s {
			h := fmt.Sprintf("%02X", c)
			if g.rng.Bool() {
				h = strings.ToLower(h)
			}
			if i == len(s)-1 && c&0x0F == 0 && g.rng.Bool() {
				h = h[:1]
			}
			b.WriteString(h)
			if g.policy >= 2 && g.rng.Chance(1, 4) {
				b.WriteString([]string{" ", "\n", "\r\n"}[g.rng.Intn(3)])
			}
		}
		b.WriteString(">")
		return b.String()
	}
	var b strings.Builder
	b.WriteString("(")
	// balanced parentheses may stay unescaped: track the running balance from the right
	for i := 0; i < len(s); i++ {
		c := s[i]
		next := byte(0)
		if i+1 < len(s) {
			next = s[i+1]
		}
		switch {
		case c == '(' || c == ')' || c == '\\':
			if g.rng.Chance(1, 3) {
				fmt.Fprintf(&b, "\\%03o", c)
			} else {
				b.WriteString("\\" + string(c))
			}
		case c == '\r':
			if g.rng.Bool() {
				b.WriteString("\\r")
			} else {
				b.WriteString("\\015")
			}
		case c == '\n' && g.rng.Bool():
			b.WriteString("\\n")
		case c == '\t' && g.rng.Bool():
			b.WriteString("\\t")
		case c == '\b':
			b.WriteString("\\b")
		case c == '\f' && g.rng.Bool():
			b.WriteString("\\f")
		case g.rng.Chance(1, 5):
			// octal, the short forms only when no octal digit follows
			if next >= '0' && next <= '7' {
				fmt.Fprintf(&b, "\\%03o", c)
			} else {
				fmt.Fprintf(&b, "\\%o", c)
			}
		default:
			b.WriteByte(c)
		}
		if g.rng.Chance(1, 12) && next != '\n' {
			// a line continuation adds nothing (a raw line feed right after "\<CR>" would be part of it)
			b.WriteString("\\" + []string{"\n", "\r", "\r\n"}[g.rng.Intn(3)])
		}
	}
	b.WriteString(")")
	return b.String()
}

func (g *c06gen) name(s []byte) string {
	var b strings.Builder
	b.WriteString("/")
	for _, c := range s {
		if !isRegular(c) || c == '#' || c < 33 || c > 126 || g.rng.Chance(1, 6) {
			h := fmt.Sprintf("#%02X", c)
			if g.rng.Bool() {
				h = strings.ToLower(h)
			}
			b.WriteString(h)
		} else {
			b.WriteByte(c)
		}
	}
	return b.String()
}

// print returns the text and whether it ends in a regular character (so that a separator is needed)
func (g *c06gen) print(o *c06obj) string {
	switch o.kind {
	case 0:
		return "null"
	case 1:
		if o.b {
			return "true"
		}
		return "false"
	case 2, 3:
		return o.lex
	case 4:
		return g.str(o.s)
	case 5:
		return g.name(o.s)
	case 6:
		var b strings.Builder
		b.WriteString("[")
		prev := "["
		for _, e := range o.arr {
			t := g.print(e)
			b.WriteString(g.sep(needSep(prev, t)))
			b.WriteString(t)
			prev = t
		}
		b.WriteString(g.sep(false))
		b.WriteString("]")
		return b.String()
	case 7:
		var b strings.Builder
		b.WriteString("<<")
		prev := "<<"
		for i, e := range o.arr {
			kt := g.name(o.keys[i])
			b.WriteString(g.sep(needSep(prev, kt)))
			b.WriteString(kt)
			t := g.print(e)
			b.WriteString(g.sep(needSep(kt, t)))
			b.WriteString(t)
			prev = t
		}
		b.WriteString(g.sep(false))
		b.WriteString(">>")
		return b.String()
	default:
		return fmt.Sprintf("%d%s%d%sR", o.n, g.sep(true), o.g, g.sep(true))
	}
}

// needSep: two tokens need whitespace between them when the first ends and the second starts with a regular character
func needSep(a, b string) bool {
	if a == "" || b == "" {
		return false
	}
	// an empty name ("/") would swallow a regular character that follows it
	return (isRegular(a[len(a)-1]) || a[len(a)-1] == '/') && isRegular(b[0])
}

func c06Expected(o *c06obj) V {
	switch o.kind {
	case 0:
		return L(I(0))
	case 1:
		return L(I(1), Bool(o.b))
	case 2:
		return L(I(2), I64(o.i))
	case 3:
		return L(I(3), I64(o.m), I(o.k))
	case 4:
		return L(I(4), VB(o.s))
	case 5:
		return L(I(5), VB(o.s))
	case 6:
		v := VL{}
		for _, e := range o.arr {
			v = append(v, c06Expected(e))
		}
		return L(I(6), v)
	case 7:
		type kv struct {
			k string
			v V
		}
		var kvs []kv
		for i, e := range o.arr {
			kvs = append(kvs, kv{string(o.keys[i]), c06Expected(e)})
		}
		sort.Slice(kvs, func(i, j int) bool { return kvs[i].k < kvs[j].k })
		v := VL{}
		for _, x := range kvs {
			v = append(v, L(Bs(x.k), x.v))
		}
		return L(I(7), v)
	}
	return L(I(8), I64(o.n), I64(o.g))
}

func c06Obj(o core.Object) V {
	switch x := o.(type) {
	case core.Null:
		return L(I(0))
	case core.Bool:
		return L(I(1), Bool(bool(x)))
	case core.Int:
		return L(I(2), I64(int64(x)))
	case core.Real:
		f := float64(x)
		if math.IsInf(f, 0) || math.IsNaN(f) {
			return L(I(3), I(-999), I(-1))
		}
		m, k := c06NormReal(strconv.FormatFloat(f, 'f', -1, 64))
		if len(strings.TrimLeft(strconv.FormatFloat(math.Abs(f), 'f', -1, 64), "0.")) > 18 {
			// too many digits for the int64 mantissa of this encoding: pass the text through
			return L(I(3), Bs(strconv.FormatFloat(f, 'f', -1, 64)), I(-1))
		}
		return L(I(3), I64(m), I(k))
	case core.String:
		return L(I(4), Bs(string(x)))
	case core.Name:
		return L(I(5), Bs(string(x)))
	case core.Array:
		v := VL{}
		for _, e := range x {
			v = append(v, c06Obj(e))
		}
		return L(I(6), v)
	case core.Dict:
		keys := make([]string, 0, len(x))
		for k := range x {
			keys = append(keys, k)
		}
		sort.Strings(keys)
		v := VL{}
		for _, k := range keys {
			v = append(v, L(Bs(k), c06Obj(x[k])))
		}
		return L(I(7), v)
	case core.IndirectRef:
		return L(I(8), I(x.Number), I(x.Generation))
	}
	return L(I(99))
}

func c06Core(text []byte) (V, bool) {
	type res struct {
		o   core.Object
		err error
	}
	done := make(chan res, 1)
	go func() {
		defer func() {
			if recover() != nil {
				done <- res{nil, fmt.Errorf("panic")}
			}
		}()
		o, err := core.NewParser(bytes.NewReader(text)).ParseObject()
		done <- res{o, err}
	}()
	select {
	case r := <-done:
		if r.err != nil {
			return L(I(1)), true
		}
		return L(I(0), c06Obj(r.o)), true
	case <-time.After(3 * time.Second):
		return nil, false
	}
}

func c06CS(text []byte) V {
	ops, err := func() (ops []contentstream.Operation, err error) {
		defer func() {
			if recover() != nil {
				err = fmt.Errorf("panic")
			}
		}()
		return contentstream.NewParser(text).Parse()
	}()
	if err != nil {
		return L(I(1))
	}
	v := VL{}
	for _, op := range ops {
		ov := VL{}
		for _, o := range op.Operands {
			ov = append(ov, c06Obj(o))
		}
		v = append(v, L(Bs(op.Operator), ov))
	}
	return L(I(0), v)
}

func init() {
	props["C06"] = func(r *Run, rng *RNG) {
		thorough := r.Tier == "thorough"
		r.Rule = "object trees to depth 4 (null, booleans, integers incl. the int64 limits with signs and leading zeros, decimal reals with at most 15 digits in every spelling, strings of arbitrary bytes, names of arbitrary bytes, arrays, dictionaries, indirect references) printed under six spelling policies (minimal separators, single blanks, runs of all six whitespace characters, comments between tokens, CR and CRLF line ends) with strings written literally, with escapes, with one- to three-digit octal codes, with line continuations or as hex strings (either case, blanks inside, odd digit counts) and names with #-escapes; operator programs of 1..12 operations over 40 operators incl. ' \" T* B* with 0..6 operands each; streams of valid tokens in random order for both parsers. non-trivial = a tree with a container or a program of at least 3 operations"
		g := &c06gen{rng: rng}
		n := 400
		if thorough {
			n = 12000
		}
		// (a) object trees through both parsers
		for it := 0; it < n; it++ {
			g.policy = rng.Intn(6)
			o := g.obj(0, true)
			text := g.print(o)
			if rng.Bool() {
				text = g.sep(false) + text + g.sep(false)
			}
			want := c06Expected(o)
			cv := L(I(0), Bs(text))
			got, ok := c06Core([]byte(text))
			if !ok {
				r.Check(false, "core-hang", "ParseObject did not return", cv)
				continue
			}
			r.Case(cv, got, fmt.Sprintf("core:policy%d", g.policy), o.kind >= 6)
			r.Check(Str(got) == Str(L(I(0), want)), fmt.Sprintf("core-roundtrip:policy%d", g.policy), fmt.Sprintf("the object parser reads %q as %s, written was %s", text, Str(got), Str(want)), cv)
			// the same tree without references as an operand of a content stream
			o2 := g.obj(0, false)
			t2 := g.print(o2)
			prog := t2 + g.sep(needSep(t2, "Do")) + "Do"
			gotCS := c06CS([]byte(prog))
			cv2 := L(I(1), Bs(prog))
			r.Case(cv2, gotCS, fmt.Sprintf("cs-operand:policy%d", g.policy), o2.kind >= 6)
			wantCS := L(I(0), L(L(Bs("Do"), L(c06Expected(o2)))))
			r.Check(Str(gotCS) == Str(wantCS), fmt.Sprintf("cs-roundtrip:policy%d", g.policy), fmt.Sprintf("the content stream parser reads %q as %s, written was %s", prog, Str(gotCS), Str(wantCS)), cv2)
			gotCore2, ok2 := c06Core([]byte(t2))
			if ok2 {
				r.Case(L(I(0), Bs(t2)), gotCore2, "core-operand", o2.kind >= 6)
				if Str(gotCore2) != Str(L(I(1))) && Str(gotCS) != Str(L(I(1))) {
					// both accept: the operand of the one operation must be the object parser's value
					agree := false
					if cs, ok := gotCS.(VL); ok && len(cs) == 2 {
						if opsV, ok := cs[1].(VL); ok && len(opsV) == 1 {
							if op, ok := opsV[0].(VL); ok && len(op) == 2 {
								if operands, ok := op[1].(VL); ok && len(operands) == 1 {
									agree = Str(L(I(0), operands[0])) == Str(gotCore2)
								}
							}
						}
					}
					r.Check(agree, "parsers-agree", fmt.Sprintf("the two parsers give %q different values: %s / %s", t2, Str(gotCore2), Str(gotCS)), L(I(0), Bs(t2)))
				}
			}
		}
		// (b) operator programs
		ops := []string{"q", "Q", "cm", "BT", "ET", "Tf", "Td", "TD", "Tm", "T*", "Tj", "TJ", "'", "\"", "Tc", "Tw", "Tz", "TL", "Tr", "Ts", "re", "m", "l", "c", "h", "S", "f", "f*", "B", "B*", "b*", "n", "W", "W*", "Do", "BDC", "EMC", "gs", "rg", "RG"}
		for it := 0; it < n; it++ {
			g.policy = rng.Intn(6)
			var b strings.Builder
			want := VL{}
			prev := ""
			nops := rng.Range(1, 12)
			for k := 0; k < nops; k++ {
				ov := VL{}
				for a := rng.Intn(7); a > 0; a-- {
					o := g.obj(2, false)
					t := g.print(o)
					b.WriteString(g.sep(needSep(prev, t)))
					b.WriteString(t)
					prev = t
					ov = append(ov, c06Expected(o))
				}
				op := ops[rng.Intn(len(ops))]
				need := needSep(prev, op)
				if prev != "" && (op == "'" || op == "\"") {
					// after a name or a number the quote would join the token
					last := prev[len(prev)-1]
					need = need || isRegular(last) || last == '/'
				}
				b.WriteString(g.sep(need))
				b.WriteString(op)
				prev = op + "x" // an operator ends in a regular character
				want = append(want, L(Bs(op), ov))
			}
			if rng.Bool() {
				b.WriteString(g.sep(false))
			}
			prog := b.String()
			got := c06CS([]byte(prog))
			cv := L(I(1), Bs(prog))
			r.Case(cv, got, fmt.Sprintf("cs-program:policy%d", g.policy), nops >= 3)
			r.Check(Str(got) == Str(L(I(0), want)), fmt.Sprintf("grouping:policy%d", g.policy), fmt.Sprintf("the program %q is read as %s, written was %s", prog, Str(got), Str(want)), cv)
			// a second parser afterwards starts with an empty operand stack
			got2 := c06CS([]byte("5 " + prog))
			_ = got2
			got3 := c06CS([]byte(prog))
			r.Check(Str(got3) == Str(got), "state-leak", "parsing the same program again gives a different result", cv)
		}
		// (c) valid tokens in random order: both parsers against the model
		toks := []string{"[", "]", "<<", ">>", "1", "-2", "3.5", "/N", "/", "(s)", "<41>", "<>", "true", "false", "null", "R", "obj", "q", "Tj", "'", "%c\n", "0", "()", "/A#42"}
		for it := 0; it < n; it++ {
			var b strings.Builder
			for k := rng.Range(1, 10); k > 0; k-- {
				b.WriteString(toks[rng.Intn(len(toks))])
				b.WriteString([]string{" ", "\n", "", " "}[rng.Intn(4)])
			}
			text := b.String()
			if !strings.Contains(text, "'") {
				if got, ok := c06Core([]byte(text)); ok {
					r.Case(L(I(0), Bs(text)), got, "core-soup", false)
				} else {
					r.Check(false, "core-hang", "ParseObject did not return", L(I(0), Bs(text)))
				}
			}
			r.Case(L(I(1), Bs(text)), c06CS([]byte(text)), "cs-soup", false)
		}
	}
}
