package main

import (
	"fmt"
	"strings"
	"unicode/utf16"
	"unicode/utf8"

	"github.com/tsawler/tabula"
	"github.com/tsawler/tabula/core"
	"github.com/tsawler/tabula/font"
	"golang.org/x/text/encoding/charmap"
	"golang.org/x/text/unicode/norm"
)

type c07entry struct {
	code uint32
	text string
}

func c07Hex(code uint32, width int) string {
	return fmt.Sprintf("%0*X", width*2, code)
}

func c07TextHex(t string) string {
	var b strings.Builder
	for _, u := range utf16.Encode([]rune(t)) {
		fmt.Fprintf(&b, "%04X", u)
	}
	return b.String()
}

// c07ForceKind, when not negative, is the section kind c07Render uses wherever it applies (directed maps).
var c07ForceKind = -1

// c07Directed are maps that run before the random ones, each under every section kind and spelling policy:
// destinations that count up across a byte carry in their last UTF-16 unit (one unit, a surrogate pair, a
// multi-character text), the last code of a code space, the first supplementary-plane character.
func c07Directed() [][]c07entry {
	run := func(code uint32, first []uint16, n int) []c07entry {
		var es []c07entry
		for k := 0; k < n; k++ {
			u := append([]uint16(nil), first...)
			u[len(u)-1] += uint16(k)
			es = append(es, c07entry{code + uint32(k), string(utf16.Decode(u))})
		}
		return es
	}
	return [][]c07entry{
		run(0x10, []uint16{0xD835, 0xDCFE}, 5), // U+1D4FE.. : the low surrogate passes DCFF
		run(0x20, []uint16{0x00FD}, 6),         // U+00FD..U+0102
		run(0x30, []uint16{0x0066, 0x01FE}, 4), // "f" + U+01FE.. : two units, carry in the second
		run(0x41, []uint16{0x4DFE}, 4),
		run(0xF8, []uint16{0x0041}, 8), // up to the last one-byte code
		run(0x01, []uint16{0xD83D, 0xDDFF}, 3),
	}
}

// c07Render writes a code->text map as a CMap program under a formatting policy.
func c07Render(rng *RNG, entries []c07entry, width int, policy int) string {
	seps := [][2]string{{" ", "\n"}, {" ", "\r\n"}, {" ", "\r"}, {"", ""}, {"  ", " "}, {"\t", "\n\n"}}
	sp, nl := seps[policy%len(seps)][0], seps[policy%len(seps)][1]
	var b strings.Builder
	b.WriteString("/CIDInit /ProcSet findresource begin" + nl + "12 dict begin" + nl + "begincmap" + nl)
	fmt.Fprintf(&b, "1 begincodespacerange%s<%s>%s<%s>%sendcodespacerange%s", nl, c07Hex(0, width), sp, strings.Repeat("FF", width), nl, nl)
	i := 0
	for i < len(entries) {
		// how many consecutive entries could form a range
		run := 1
		for i+run < len(entries) && entries[i+run].code == entries[i].code+uint32(run) && (entries[i+run].code&0xFF) != 0 {
			run++
		}
		kind := rng.Intn(3) // 0 bfchar, 1 bfrange with offset (when the texts count up), 2 bfrange with array
		if c07ForceKind >= 0 {
			kind = c07ForceKind
		}
		countsUp := run > 1
		if countsUp {
			base := utf16.Encode([]rune(entries[i].text))
			for k := 1; k < run && countsUp; k++ {
				u := utf16.Encode([]rune(entries[i+k].text))
				if len(u) != len(base) {
					countsUp = false
					break
				}
				for j := range u {
					want := base[j]
					if j == len(u)-1 {
						want = base[j] + uint16(k)
					}
					if u[j] != want {
						countsUp = false
					}
				}
			}
		}
		switch {
		case kind == 1 && countsUp:
			fmt.Fprintf(&b, "1 beginbfrange%s<%s>%s<%s>%s<%s>%sendbfrange%s", nl, c07Hex(entries[i].code, width), sp, c07Hex(entries[i+run-1].code, width), sp, c07TextHex(entries[i].text), nl, nl)
			i += run
		case kind == 2 && run > 1:
			fmt.Fprintf(&b, "1 beginbfrange%s<%s>%s<%s>%s[", nl, c07Hex(entries[i].code, width), sp, c07Hex(entries[i+run-1].code, width), sp)
			for k := 0; k < run; k++ {
				if k > 0 {
					b.WriteString(sp)
					if policy%2 == 0 && k%3 == 0 {
						b.WriteString(nl)
					}
				}
				b.WriteString("<" + c07TextHex(entries[i+k].text) + ">")
			}
			b.WriteString("]" + nl + "endbfrange" + nl)
			i += run
		default:
			// a bfchar section with up to 5 entries, or a mixed bfrange section
			n := rng.Range(1, 5)
			if i+n > len(entries) {
				n = len(entries) - i
			}
			if rng.Chance(1, 4) {
				fmt.Fprintf(&b, "%d beginbfrange%s", n, nl)
				for k := 0; k < n; k++ {
					e := entries[i+k]
					if rng.Bool() {
						fmt.Fprintf(&b, "<%s>%s<%s>%s[<%s>]%s", c07Hex(e.code, width), sp, c07Hex(e.code, width), sp, c07TextHex(e.text), nl)
					} else {
						fmt.Fprintf(&b, "<%s>%s<%s>%s<%s>%s", c07Hex(e.code, width), sp, c07Hex(e.code, width), sp, c07TextHex(e.text), nl)
					}
				}
				b.WriteString("endbfrange" + nl)
			} else {
				fmt.Fprintf(&b, "%d beginbfchar%s", n, nl)
				for k := 0; k < n; k++ {
					fmt.Fprintf(&b, "<%s>%s<%s>%s", c07Hex(entries[i+k].code, width), sp, c07TextHex(entries[i+k].text), nl)
				}
				b.WriteString("endbfchar" + nl)
			}
			i += n
		}
	}
	b.WriteString("endcmap" + nl + "CMapName currentdict /CMap defineresource pop" + nl + "end" + nl + "end")
	return b.String()
}

func c07Text(rng *RNG) string {
	pool := []string{"A", "z", "é", "ß", "Ω", "中", "あ", "\U0001D400", "\U0001F600", "fi", "ffi", "é", "𝒳y", "—", " ", "한", "äb",
		// characters that are not in normal form C although they carry no combining mark (singleton decompositions, conjoining jamo)
		"\u2126", "\u212A", "\u212B", "\uF900", "\uFA30", "\u1100\u1161", "\u2329", "\u1F71", "x\u2000y", "\u0344", "A\u030A",
		// boundary values of the UTF-16 forms and of byte carries
		"\U00010000", "\U000103FF", "\U0010FC00", "\U0010FFFF", "\uFFFF", "\uE000", "\uD7FF", "\u00FE", "\u01FD", "\U0001D4FD", "\U0001F3FE", "f\u00FF"}
	return pool[rng.Intn(len(pool))]
}

func init() {
	props["C07"] = func(r *Run, rng *RNG) {
		thorough := r.Tier == "thorough"
		r.Exhaustive = false
		r.Rule = "all 256 codes of each of the six named encodings (one by one and as one string) and of unknown names; UTF-16BE/LE strings of valid Unicode text incl. supplementary planes, and arbitrary byte strings incl. odd lengths and lone surrogates; random code->text maps (1..40 codes of width 1..4 bytes; texts of one BMP character, supplementary-plane characters, ligatures and combining sequences; consecutive codes with texts that count up) rendered as CMap programs with bfchar, bfrange-with-offset, bfrange-with-array and mixed sections under six spacing / line-end policies (LF, CRLF, CR, none, blanks, tabs and blank lines); random byte strings through every Font.DecodeString path. non-trivial = a map with at least 5 codes / a string of at least 4 units"
		names := []string{"WinAnsiEncoding", "MacRomanEncoding", "PDFDocEncoding", "StandardEncoding", "SymbolEncoding", "ZapfDingbatsEncoding", "", "Identity-H", "NoSuchEncoding"}
		// (a) encodings, exhaustively
		for _, n := range names {
			all := make([]byte, 256)
			for b := 0; b < 256; b++ {
				all[b] = byte(b)
				got := font.GetEncoding(n).DecodeString([]byte{byte(b)})
				r.Case(L(I(0), Bs(n), VB([]byte{byte(b)})), Bs(got), "encoding", true)
				r.Check(utf8.ValidString(got), "utf8:encoding", fmt.Sprintf("%s code %02X decodes to invalid UTF-8", n, b), L(I(0), Bs(n), VB([]byte{byte(b)})))
			}
			r.Case(L(I(0), Bs(n), VB(all)), Bs(font.GetEncoding(n).DecodeString(all)), "encoding", true)
		}
		// the tables against the reference (the model side lists the codes that deviate)
		for k := 0; k < 6; k++ {
			r.Case(L(I(3), I(k)), L(), "reference", true)
		}
		for name, ref := range c07Ref {
			for b := 0; b < 256; b++ {
				got := font.GetEncoding(name).Decode(byte(b))
				ok := false
				for _, v := range ref[b] {
					if v == got {
						ok = true
					}
				}
				r.Check(ok, "table:"+name, fmt.Sprintf("%s code %02X decodes to U+%04X, the annex allows %04X", name, b, got, ref[b]), L(I(0), Bs(name), VB([]byte{byte(b)})))
			}
		}
		// independent cross-check of the two encodings x/text knows
		for b := 0x20; b < 256; b++ {
			w := font.GetEncoding("WinAnsiEncoding").Decode(byte(b))
			c := charmap.Windows1252.DecodeByte(byte(b))
			if c != utf8.RuneError && b != 0x7F {
				r.Check(w == c, "table:winansi-cp1252", fmt.Sprintf("WinAnsi %02X is U+%04X, code page 1252 has U+%04X", b, w, c), I(b))
			}
			m := font.GetEncoding("MacRomanEncoding").Decode(byte(b))
			c2 := charmap.Macintosh.DecodeByte(byte(b))
			if b != 0x7F && b != 0xDB {
				r.Check(m == c2, "table:macroman-macos", fmt.Sprintf("MacRoman %02X is U+%04X, Mac OS Roman has U+%04X", b, m, c2), I(b))
			}
		}
		n := 200
		if thorough {
			n = 6000
		}
		// (b) UTF-16
		for it := 0; it < n; it++ {
			var rs []rune
			for k := rng.Intn(8); k > 0; k-- {
				rs = append(rs, []rune(c07Text(rng))...)
			}
			us := utf16.Encode(rs)
			for _, be := range []bool{true, false} {
				data := make([]byte, 0, 2*len(us))
				for _, u := range us {
					if be {
						data = append(data, byte(u>>8), byte(u))
					} else {
						data = append(data, byte(u), byte(u>>8))
					}
				}
				var got string
				if be {
					got = font.DecodeUTF16BE(data)
				} else {
					got = font.DecodeUTF16LE(data)
				}
				cv := L(I(1), Bool(be), VB(data))
				r.Case(cv, Bs(got), "utf16", len(us) >= 4)
				r.Check(got == string(rs), "utf16-roundtrip", fmt.Sprintf("UTF-16 (big endian %v) of %q decodes to %q", be, string(rs), got), cv)
				// with a byte-order mark through Font.DecodeString
				bom := []byte{0xFE, 0xFF}
				if !be {
					bom = []byte{0xFF, 0xFE}
				}
				f := font.NewFont("F1", "Helvetica", "Type1")
				f.Encoding = "WinAnsiEncoding"
				gotF := f.DecodeString(append(append([]byte{}, bom...), data...))
				r.Check(gotF == norm.NFC.String(string(rs)), "bom", fmt.Sprintf("a string with byte-order mark decodes to %q, text is %q", gotF, string(rs)), cv)
			}
			// arbitrary bytes
			raw := rng.Bytes(rng.Intn(9))
			if rng.Chance(1, 3) && len(raw) >= 2 {
				raw[0], raw[1] = 0xD8, byte(rng.Intn(256))
			}
			be := rng.Bool()
			cp := append([]byte{}, raw...)
			var got string
			if be {
				got = font.DecodeUTF16BE(cp)
			} else {
				got = font.DecodeUTF16LE(cp)
			}
			r.Case(L(I(1), Bool(be), VB(raw)), Bs(got), "utf16-raw", len(raw) >= 4)
			r.Check(utf8.ValidString(got), "utf8:utf16", "UTF-16 decoding returned invalid UTF-8", L(I(1), Bool(be), VB(raw)))
		}
		checkMap := func(rng *RNG, entries []c07entry, width int, policy int) {
			prog := c07Render(rng, entries, width, policy)
			cm, err := font.ParseToUnicodeCMap(&core.Stream{Dict: core.Dict{}, Data: []byte(prog)})
			if err != nil {
				r.Check(false, "cmap-parse-error", err.Error(), Bs(prog))
				return
			}
			// every code alone, then a string of all codes
			var all []byte
			var want strings.Builder
			okAll := true
			for _, e := range entries {
				cb := make([]byte, width)
				for k := 0; k < width; k++ {
					cb[width-1-k] = byte(e.code >> (8 * uint(k)))
				}
				all = append(all, cb...)
				want.WriteString(e.text)
				got := cm.LookupString(cb)
				if got != e.text {
					okAll = false
					r.Check(false, fmt.Sprintf("cmap-lookup:policy%d", policy), fmt.Sprintf("code <%s> decodes to %q, the map says %q", c07Hex(e.code, width), got, e.text), L(I(2), Bs(prog), VB(cb)))
					break
				}
			}
			if okAll {
				r.Check(true, "cmap-lookup", "", nil)
			}
			gotAll := cm.LookupString(all)
			cv := L(I(2), Bs(prog), VB(all))
			r.Case(cv, Bs(gotAll), fmt.Sprintf("cmap:width%d", width), len(entries) >= 5)
			r.Check(gotAll == want.String(), "cmap-lookup-string", fmt.Sprintf("the string of all codes decodes to %q, the map says %q", gotAll, want.String()), cv)
			// unmapped and short input still gives valid UTF-8
			junk := rng.Bytes(rng.Intn(7))
			gj := cm.LookupString(junk)
			r.Case(L(I(2), Bs(prog), VB(junk)), Bs(gj), "cmap-junk", false)
			r.Check(utf8.ValidString(gj), "utf8:cmap", "CMap lookup returned invalid UTF-8", L(I(2), Bs(prog), VB(junk)))
			// precedence and normal form through the font
			f := font.NewFont("F1", "Helvetica", "Type1")
			f.Encoding = "WinAnsiEncoding"
			f.ToUnicodeCMap = cm
			gf := f.DecodeString(all)
			r.Check(gf == norm.NFC.String(want.String()), "precedence", fmt.Sprintf("with a ToUnicode map the font decodes to %q, the map says %q", gf, want.String()), cv)
		}
		// (c0) directed maps, from a generator state of their own
		{
			drng := NewRNG(0xC07D)
			for _, es := range c07Directed() {
				for kind := 0; kind < 3; kind++ {
					for policy := 0; policy < 6; policy++ {
						for _, width := range []int{1, 2, 3} {
							c07ForceKind = kind
							checkMap(drng, es, width, policy)
							c07ForceKind = -1
						}
					}
				}
			}
		}
		// (c) CMaps
		for it := 0; it < n; it++ {
			width := rng.Range(1, 4)
			ne := rng.Range(1, 40)
			used := map[uint32]bool{}
			var entries []c07entry
			code := uint32(rng.Intn(200))
			if width > 1 {
				code = uint32(rng.Intn(1 << 14))
			}
			if width > 2 && rng.Chance(2, 3) {
				// codes whose leading bytes are not zero: read with a narrower width they are different codes
				code = uint32(rng.Intn(1<<uint(8*width-2))) | uint32(1+rng.Intn(200))<<uint(8*(width-1))
			}
			for len(entries) < ne {
				if rng.Chance(2, 3) {
					code++
				} else {
					code += uint32(rng.Range(2, 300))
				}
				max := uint32(1)<<(8*uint(width)) - 1
				if width == 4 {
					max = 0xFFFFFFF0
				}
				if code > max {
					break
				}
				if used[code] {
					continue
				}
				used[code] = true
				t := c07Text(rng)
				if rng.Chance(1, 2) && len(entries) > 0 && entries[len(entries)-1].code+1 == code {
					// texts that count up in their last UTF-16 unit
					pu := utf16.Encode([]rune(entries[len(entries)-1].text))
					wraps := pu[len(pu)-1] == 0xFFFF
					pu[len(pu)-1]++
					if !wraps && (!utf16.IsSurrogate(rune(pu[len(pu)-1])) || len(pu) > 1) {
						dec := utf16.Decode(pu)
						if utf8.ValidString(string(dec)) && !strings.ContainsRune(string(dec), utf8.RuneError) {
							t = string(dec)
						}
					}
				}
				entries = append(entries, c07entry{code, t})
			}
			if len(entries) == 0 {
				continue
			}
			checkMap(rng, entries, width, rng.Intn(6))
		}
		// (c1) the font a name selects is the one of the resources in force: a form's font of the same name
		// as a page font decodes the form's text only, not the page text that follows the form
		{
			cm := "/CIDInit /ProcSet findresource begin 12 dict begin begincmap 1 begincodespacerange <00> <FF> endcodespacerange 3 beginbfchar <41> <0058> <42> <0059> <43> <005A> endbfchar endcmap end end"
			for _, inner := range []bool{false, true} {
				formRes := "/Resources << /Font << /F1 8 0 R >> >>"
				formBody := "BT /F1 10 Tf 10 10 Td (ABC) Tj ET"
				objs := []string{
					"<< /Type /Catalog /Pages 2 0 R >>",
					"<< /Type /Pages /Kids [3 0 R] /Count 1 /MediaBox [0 0 612 792] >>",
					"<< /Type /Page /Parent 2 0 R /Resources 6 0 R /Contents 4 0 R >>",
					c02StreamObj("", []byte("BT /F1 12 Tf 72 700 Td (ABC before) Tj ET /Fm Do BT /F1 12 Tf 72 650 Td (ABC after) Tj ET")),
					"<< /Type /Font /Subtype /Type1 /BaseFont /Helvetica /Encoding /WinAnsiEncoding >>",
					"<< /Font << /F1 5 0 R >> /XObject << /Fm 7 0 R >> >>",
					"", // the form
					"<< /Type /Font /Subtype /TrueType /BaseFont /ABCDEF+Sub /FirstChar 32 /LastChar 32 /Widths [250] /ToUnicode 9 0 R >>",
					c02StreamObj("", []byte(cm)),
				}
				if inner {
					// the form draws a second form which brings the font; the outer form has no font of its own
					formRes = "/Resources << /XObject << /In 10 0 R >> >>"
					formBody = "BT /F1 10 Tf 10 30 Td (ABC outer) Tj ET /In Do BT /F1 10 Tf 10 50 Td (ABC outer again) Tj ET"
					objs = append(objs, c02StreamObj("/Type /XObject /Subtype /Form /BBox [0 0 200 200] /Resources << /Font << /F1 8 0 R >> >>", []byte("BT /F1 10 Tf 10 10 Td (ABC) Tj ET")))
				}
				objs[6] = c02StreamObj("/Type /XObject /Subtype /Form /BBox [0 0 200 200] "+formRes, []byte(formBody))
				p := tmpFile(r, ".pdf", c02RawPDF(objs, ""))
				txt, _, err := tabula.Open(p).Text()
				want := []string{"ABC before", "XYZ", "ABC after"}
				if inner {
					want = []string{"ABC before", "ABC outer", "XYZ", "ABC outer again", "ABC after"}
				}
				// the layout orders the lines by position: only which strings are there is compared
				ok := err == nil
				for _, w := range want {
					if !strings.Contains(txt, w) {
						ok = false
					}
				}
				r.Check(ok && strings.Count(txt, "XYZ") == 1, "font-scope:form", fmt.Sprintf("page font F1 (WinAnsi) and a form font F1 (ToUnicode A->X B->Y C->Z): the page reads %q (%v), expected (in any order) %q, XYZ once", txt, err, want), Bs(p))
			}
		}
		// (c2) a ToUnicode map also decides strings that happen to begin like a byte-order mark
		for it := 0; it < 40; it++ {
			ta, tb, tc := c07Text(rng), c07Text(rng), c07Text(rng)
			var prog string
			var data []byte
			if rng.Bool() {
				prog = fmt.Sprintf("1 begincodespacerange <0000> <FFFF> endcodespacerange 3 beginbfchar <FEFF> <%s> <FFFE> <%s> <0041> <%s> endbfchar", c07TextHex(ta), c07TextHex(tb), c07TextHex(tc))
				data = [][]byte{{0xFE, 0xFF, 0x00, 0x41, 0xFF, 0xFE}, {0xFF, 0xFE, 0x00, 0x41, 0xFE, 0xFF}}[rng.Intn(2)]
			} else {
				prog = fmt.Sprintf("1 begincodespacerange <00> <FF> endcodespacerange 3 beginbfchar <FE> <%s> <FF> <%s> <41> <%s> endbfchar", c07TextHex(ta), c07TextHex(tb), c07TextHex(tc))
				data = [][]byte{{0xFE, 0xFF, 0x41}, {0xFF, 0xFE, 0x41, 0xFE}}[rng.Intn(2)]
			}
			cm, err := font.ParseToUnicodeCMap(&core.Stream{Dict: core.Dict{}, Data: []byte(prog)})
			if err != nil || cm == nil {
				r.Check(false, "cmap-parse", "a ToUnicode program with codes FE / FF does not parse", Bs(prog))
				continue
			}
			f := font.NewFont("F1", "Custom", "Type0")
			f.ToUnicodeCMap = cm
			want := norm.NFC.String(cm.LookupString(data))
			got := f.DecodeString(data)
			// the third text must be there; compared decomposed, because composition may merge its first or last
			// character with a neighbour's combining mark
			has := strings.Contains(norm.NFD.String(want), norm.NFD.String(tc))
			r.Check(got == want && has, "precedence-bom", fmt.Sprintf("a string beginning with bytes % X, font with a ToUnicode map: decoded to %q, the map gives %q", data[:2], got, want), L(I(2), Bs(prog), VB(data)))
		}
		// (d) every path returns valid UTF-8 in normal form C
		for it := 0; it < n*2; it++ {
			data := rng.Bytes(rng.Intn(12))
			f := font.NewFont("F1", "Helvetica", "Type1")
			f.Encoding = names[rng.Intn(len(names))]
			got := f.DecodeString(data)
			ok := utf8.ValidString(got) && norm.NFC.IsNormalString(got)
			r.Check(ok, "utf8-nfc:font", fmt.Sprintf("Font.DecodeString (encoding %q) returned %q", f.Encoding, got), VB(data))
			// precedence without a ToUnicode map: byte-order mark, then the encoding
			if !(len(data) >= 2 && ((data[0] == 0xFE && data[1] == 0xFF) || (data[0] == 0xFF && data[1] == 0xFE))) && f.Encoding != "" {
				want := norm.NFC.String(font.GetEncoding(f.Encoding).DecodeString(data))
				r.Check(got == want, "precedence-encoding", fmt.Sprintf("font with encoding %q decodes to %q, the encoding gives %q", f.Encoding, got, want), VB(data))
			}
		}
	}
}
