package main

import (
	"fmt"
	"math"
	"strings"

	"github.com/tsawler/tabula/contentstream"
	"github.com/tsawler/tabula/core"
	"github.com/tsawler/tabula/text"
)

type c08Op struct {
	k    int // same numbering as coq/model/C08_Run.v
	m    [6]int
	a, b int
	hasM bool
	body []c08Op
}

func c08Val(ops []c08Op) V {
	var l VL = VL{}
	for _, o := range ops {
		switch o.k {
		case 2, 6:
			l = append(l, L(I(o.k), I(o.m[0]), I(o.m[1]), I(o.m[2]), I(o.m[3]), I(o.m[4]), I(o.m[5])))
		case 5, 10, 11, 12, 13:
			l = append(l, L(I(o.k), I(o.a)))
		case 7, 8, 16:
			l = append(l, L(I(o.k), I(o.a), I(o.b)))
		case 17:
			var mv VL = VL{}
			if o.hasM {
				for _, x := range o.m {
					mv = append(mv, I(x))
				}
			}
			l = append(l, L(I(17), mv, c08Val(o.body)))
		default:
			l = append(l, L(I(o.k)))
		}
	}
	return l
}

type c08Ctx struct {
	nshow   int
	forms   map[int]*core.Stream
	xobj    core.Dict
	nextObj int
}

func ints(xs ...int) []core.Object {
	var out []core.Object
	for _, x := range xs {
		out = append(out, core.Int(x))
	}
	return out
}

func (c *c08Ctx) showText() core.String {
	c.nshow++
	return core.String(fmt.Sprintf("t%d", c.nshow))
}

// toOperations: the program as contentstream.Operation values (forms are
// registered as XObjects whose content is the serialised nested program)
func (c *c08Ctx) toOperations(ops []c08Op) []contentstream.Operation {
	var out []contentstream.Operation
	add := func(name string, operands ...core.Object) {
		out = append(out, contentstream.Operation{Operator: name, Operands: operands})
	}
	for _, o := range ops {
		switch o.k {
		case 0:
			add("q")
		case 1:
			add("Q")
		case 2:
			add("cm", ints(o.m[:]...)...)
		case 3:
			add("BT")
		case 4:
			add("ET")
		case 5:
			add("Tf", core.Name("F1"), core.Int(o.a))
		case 6:
			add("Tm", ints(o.m[:]...)...)
		case 7:
			add("Td", ints(o.a, o.b)...)
		case 8:
			add("TD", ints(o.a, o.b)...)
		case 9:
			add("T*")
		case 10:
			add("TL", core.Int(o.a))
		case 11:
			add("Tc", core.Int(o.a))
		case 12:
			add("Tw", core.Int(o.a))
		case 13:
			add("Tz", core.Int(o.a))
		case 14:
			add("Tj", c.showText())
		case 15:
			add("'", c.showText())
		case 16:
			add("\"", core.Int(o.a), core.Int(o.b), c.showText())
		case 17:
			c.nextObj++
			n := c.nextObj
			name := fmt.Sprintf("Fm%d", n)
			d := core.Dict{"Type": core.Name("XObject"), "Subtype": core.Name("Form")}
			if o.hasM {
				d["Matrix"] = core.Array(ints(o.m[:]...))
			}
			st := &core.Stream{Dict: d, Data: []byte(c.serialise(o.body))}
			c.forms[n] = st
			c.xobj[name] = core.IndirectRef{Number: n}
			add("Do", core.Name(name))
		}
	}
	return out
}

func (c *c08Ctx) serialise(ops []c08Op) string {
	var b strings.Builder
	for _, op := range c.toOperations(ops) {
		for _, a := range op.Operands {
			switch v := a.(type) {
			case core.Int:
				fmt.Fprintf(&b, "%d ", int64(v))
			case core.Name:
				fmt.Fprintf(&b, "/%s ", string(v))
			case core.String:
				fmt.Fprintf(&b, "(%s) ", string(v))
			}
		}
		b.WriteString(op.Operator)
		b.WriteString("\n")
	}
	return b.String()
}

// ---- independent ISO 32000 semantics as point transformations (spec side of (b))
type isoG struct {
	cms    [][6]int // most recent first
	tmBase [6]int
	tdx    int
	tdy    int
	lead   int
	fs     int
	clean  bool
}

func isoApply(m [6]int, x, y int) (int, int) {
	return m[0]*x + m[2]*y + m[4], m[1]*x + m[3]*y + m[5]
}

type isoShown struct {
	clean bool
	x, y  int
	base  int // font size x text-matrix scale
	sq    int // squared length of the image of the vertical unit vector under the cms
}

func isoRun(ops []c08Op, g *isoG, stack *[]isoG, top bool, out *[]isoShown) bool {
	cp := func(s isoG) isoG {
		s.cms = append([][6]int{}, s.cms...)
		return s
	}
	show := func() {
		x, y := isoApply(g.tmBase, g.tdx, g.tdy)
		for _, m := range g.cms {
			x, y = isoApply(m, x, y)
		}
		vx, vy := 0, 1
		for _, m := range g.cms {
			vx, vy = m[0]*vx+m[2]*vy, m[1]*vx+m[3]*vy
		}
		ab := func(z int) int {
			if z < 0 {
				return -z
			}
			return z
		}
		sc := ab(g.tmBase[0])
		if ab(g.tmBase[3]) > sc {
			sc = ab(g.tmBase[3])
		}
		*out = append(*out, isoShown{g.clean, x, y, g.fs * sc, vx*vx + vy*vy})
		g.clean = false
	}
	for _, o := range ops {
		switch o.k {
		case 0:
			*stack = append(*stack, cp(*g))
		case 1:
			if len(*stack) == 0 {
				if top {
					return false
				}
				continue
			}
			*g = (*stack)[len(*stack)-1]
			*stack = (*stack)[:len(*stack)-1]
		case 2:
			g.cms = append([][6]int{o.m}, g.cms...)
		case 3:
			g.tmBase = [6]int{1, 0, 0, 1, 0, 0}
			g.tdx, g.tdy, g.clean = 0, 0, true
		case 5:
			g.fs = o.a
		case 6:
			g.tmBase = o.m
			g.tdx, g.tdy, g.clean = 0, 0, true
		case 7:
			g.tdx += o.a
			g.tdy += o.b
			g.clean = true
		case 8:
			g.lead = -o.b
			g.tdx += o.a
			g.tdy += o.b
			g.clean = true
		case 9:
			g.tdy -= g.lead
			g.clean = true
		case 10:
			g.lead = o.a
		case 14:
			show()
		case 15, 16:
			g.tdy -= g.lead
			g.clean = true
			show()
		case 17:
			*stack = append(*stack, cp(*g))
			if o.hasM {
				g.cms = append([][6]int{o.m}, g.cms...)
			}
			isoRun(o.body, g, stack, false, out)
			if len(*stack) > 0 {
				*g = (*stack)[len(*stack)-1]
				*stack = (*stack)[:len(*stack)-1]
			}
		}
	}
	return true
}

var c08Mats = [][6]int{
	{1, 0, 0, 1, 100, 100}, {1, 0, 0, 1, -7, 13}, {2, 0, 0, 2, 0, 0}, {3, 0, 0, 3, 5, 5},
	{2, 0, 0, 3, 0, 0}, {1, 0, 0, -1, 0, 800}, {-1, 0, 0, 1, 600, 0}, {0, 1, -1, 0, 0, 0},
	{0, -1, 1, 0, 10, 20}, {1, 0, 2, 1, 0, 0}, {1, 3, 0, 1, 4, 4}, {3, 4, -4, 3, 0, 0},
	{4, 3, -3, 4, 1, 2}, {5, 0, 0, 5, -50, 50}, {1, 0, 0, 1, 0, 0}, {0, 2, -2, 0, 7, 7},
	{12, 0, 0, 12, 72, 720}, {1, 1, 1, 2, 3, 4},
}

func c08Mat(rng *RNG) [6]int {
	m := c08Mats[rng.Intn(len(c08Mats))]
	if rng.Chance(1, 4) {
		m[4] = rng.Range(-300, 300)
		m[5] = rng.Range(-300, 300)
	}
	return m
}

func c08Gen(rng *RNG, n int, depth int, inForm bool, nonTrans *int) []c08Op {
	var ops []c08Op
	open := 0
	for i := 0; i < n; i++ {
		k := rng.Intn(22)
		switch {
		case k == 0 && depth < 8:
			ops = append(ops, c08Op{k: 0})
			open++
		case k == 1:
			if open > 0 {
				ops = append(ops, c08Op{k: 1})
				open--
			} else if !inForm && rng.Chance(1, 30) {
				ops = append(ops, c08Op{k: 1}) // underflow: error expected
			}
		case k == 2 || k == 18:
			if *nonTrans < 7 {
				ops = append(ops, c08Op{k: 2, m: c08Mat(rng)})
				*nonTrans++
			} else {
				ops = append(ops, c08Op{k: 2, m: [6]int{1, 0, 0, 1, rng.Range(-50, 50), rng.Range(-50, 50)}})
			}
		case k == 3:
			ops = append(ops, c08Op{k: 3})
		case k == 4:
			ops = append(ops, c08Op{k: 4})
		case k == 5:
			ops = append(ops, c08Op{k: 5, a: []int{1, 8, 10, 12, 24}[rng.Intn(5)]})
		case k == 6:
			if *nonTrans < 9 {
				ops = append(ops, c08Op{k: 6, m: c08Mat(rng)})
				*nonTrans++
			}
		case k == 7 || k == 19:
			ops = append(ops, c08Op{k: 7, a: rng.Range(-40, 200), b: rng.Range(-40, 40)})
		case k == 8:
			ops = append(ops, c08Op{k: 8, a: rng.Range(-40, 40), b: rng.Range(-30, 30)})
		case k == 9:
			ops = append(ops, c08Op{k: 9})
		case k == 10:
			ops = append(ops, c08Op{k: 10, a: rng.Range(-5, 30)})
		case k == 11:
			ops = append(ops, c08Op{k: 11, a: rng.Range(0, 3)})
		case k == 12:
			ops = append(ops, c08Op{k: 12, a: rng.Range(0, 5)})
		case k == 13:
			ops = append(ops, c08Op{k: 13, a: []int{100, 50, 200, 0}[rng.Intn(4)]})
		case k == 14 || k == 20 || k == 21:
			ops = append(ops, c08Op{k: 14})
		case k == 15:
			if !inForm { // quote operators need the content-stream parser inside forms
				ops = append(ops, c08Op{k: 15})
			}
		case k == 16:
			if !inForm {
				ops = append(ops, c08Op{k: 16, a: rng.Range(0, 3), b: rng.Range(0, 2)})
			}
		case k == 17 && depth < 2:
			body := c08Gen(rng, rng.Range(1, 8), depth+1, true, nonTrans)
			o := c08Op{k: 17, body: body}
			if rng.Chance(2, 3) && *nonTrans < 7 {
				o.hasM = true
				o.m = c08Mat(rng)
				*nonTrans++
			}
			ops = append(ops, o)
		}
	}
	for ; open > 0; open-- {
		if inForm || rng.Chance(3, 4) {
			ops = append(ops, c08Op{k: 1})
		}
	}
	return ops
}

func c08RunProgram(r *Run, ops []c08Op, tag string) {
	ctx := &c08Ctx{forms: map[int]*core.Stream{}, xobj: core.Dict{}}
	operations := ctx.toOperations(ops)
	ex := text.NewExtractor()
	ex.SetResourceContext(core.Dict{"XObject": ctx.xobj}, func(ref core.IndirectRef) (core.Object, error) {
		if s, ok := ctx.forms[ref.Number]; ok {
			return s, nil
		}
		return nil, fmt.Errorf("no object %d", ref.Number)
	})
	frags, err := ex.Extract(operations)
	// spec side
	var iso []isoShown
	g := isoG{tmBase: [6]int{1, 0, 0, 1, 0, 0}, fs: 12, clean: true}
	var st []isoG
	okIso := isoRun(ops, &g, &st, true, &iso)
	cv := c08Val(ops)
	if err != nil {
		r.Case(cv, RErr(), tag+":err", false)
		r.Check(!okIso, "unexpected-error", "extraction failed on a program the imaging model accepts: "+err.Error(), cv)
		return
	}
	r.Check(okIso, "missing-error", "Q on an empty stack was accepted", cv)
	if len(frags) != len(iso) {
		r.Case(cv, L(I(0), L(I(len(frags)))), tag, false)
		r.Check(false, "fragment-count", fmt.Sprintf("%d fragments for %d show operators", len(frags), len(iso)), cv)
		return
	}
	var out VL = VL{}
	nclean := 0
	for i, f := range frags {
		var pos V = L()
		if iso[i].clean {
			nclean++
			if f.X != math.Trunc(f.X) || f.Y != math.Trunc(f.Y) || math.Abs(f.X) > 1e15 || math.Abs(f.Y) > 1e15 {
				pos = L(I(-999999999), I(-999999999))
			} else {
				pos = L(I64(int64(f.X)), I64(int64(f.Y)))
			}
			ok := f.X == float64(iso[i].x) && f.Y == float64(iso[i].y)
			r.Check(ok, "position", fmt.Sprintf("show #%d (%s): reported (%v,%v), imaging model gives (%d,%d)", i, f.Text, f.X, f.Y, iso[i].x, iso[i].y), cv)
		}
		fs := int64(-1)
		if f.FontSize == math.Trunc(f.FontSize) && math.Abs(f.FontSize) < 1e15 {
			fs = int64(f.FontSize)
		}
		// font size = font size x text-matrix scale x CTM vertical scale (checked when the scale is rational)
		if root := int(math.Round(math.Sqrt(float64(iso[i].sq)))); root*root == iso[i].sq {
			if root == 0 {
				root = 1
			}
			r.Check(f.FontSize == float64(iso[i].base*root), "font-size", fmt.Sprintf("show #%d: reported size %v, font size x text scale x CTM scale = %d", i, f.FontSize, iso[i].base*root), cv)
		}
		out = append(out, L(pos, I64(fs)))
	}
	r.Case(cv, ROk(out), tag, nclean >= 2)
}

func init() {
	props["C08"] = func(r *Run, rng *RNG) {
		thorough := r.Tier == "thorough"
		r.Rule = "operator programs over {q,Q,cm,BT,ET,Tf,Tm,Td,TD,T*,TL,Tc,Tw,Tz,Tj,',\",Do(form with /Matrix)} with integer matrices (translations, uniform and non-uniform scales, reflections, 90-degree and 3-4-5 rotations, shears), q/Q nesting to depth 8, forms nested to depth 2, length up to 40; every program of length<=3(4) over a 12-op alphabet followed by a show; compared at shows that follow a positioning operator (the advance of a shown string is font-dependent). non-trivial = >=2 compared positions"
		// the program of the property text
		c08RunProgram(r, []c08Op{{k: 2, m: [6]int{1, 0, 0, 1, 100, 100}}, {k: 2, m: [6]int{2, 0, 0, 2, 0, 0}}, {k: 3}, {k: 5, a: 12}, {k: 7, a: 10, b: 10}, {k: 14}, {k: 4}}, "fixed")
		// exhaustive short programs
		alpha := []c08Op{{k: 0}, {k: 1}, {k: 2, m: [6]int{2, 0, 0, 3, 10, 20}}, {k: 2, m: [6]int{0, 1, -1, 0, 5, 0}}, {k: 3}, {k: 6, m: [6]int{2, 0, 0, 2, 7, 9}}, {k: 7, a: 3, b: 4}, {k: 8, a: 1, b: -14}, {k: 9}, {k: 10, a: 11}, {k: 14}, {k: 15},
			{k: 17, hasM: true, m: [6]int{1, 0, 0, 1, 50, 60}, body: []c08Op{{k: 2, m: [6]int{2, 0, 0, 2, 0, 0}}, {k: 3}, {k: 7, a: 1, b: 2}, {k: 14}}}}
		maxLen := 3
		if thorough {
			maxLen = 4
		}
		var rec func(cur []c08Op)
		rec = func(cur []c08Op) {
			if len(cur) > 0 {
				prog := append(append([]c08Op{}, cur...), c08Op{k: 14}, c08Op{k: 9}, c08Op{k: 14})
				c08RunProgram(r, prog, "exhaustive")
			}
			if len(cur) == maxLen {
				return
			}
			for _, o := range alpha {
				rec(append(cur, o))
			}
		}
		rec(nil)
		n := 2000
		if thorough {
			n = 100000
		}
		for i := 0; i < n; i++ {
			nt := 0
			ops := c08Gen(rng, rng.Range(3, 40), 0, false, &nt)
			c08RunProgram(r, ops, "random")
		}
	}
}
