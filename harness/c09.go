package main

import (
	"fmt"
	"os"
	"regexp"
	"sort"
	"strings"

	"github.com/tsawler/tabula"
	"github.com/tsawler/tabula/layout"
	"github.com/tsawler/tabula/text"
)

var c09Tok = regexp.MustCompile(`t[0-9]+x`)

type c09page struct {
	frags  []text.TextFragment
	w, h   float64
	tokens []string
	kind   string
}

type c09gen struct {
	rng *RNG
	n   int
}

func (g *c09gen) tok() string {
	g.n++
	return fmt.Sprintf("t%dx", g.n)
}

// page builds a synthetic page: columns of lines of words.
func (g *c09gen) page() c09page {
	rng := g.rng
	p := c09page{w: 612, h: 792}
	if rng.Chance(1, 8) {
		// a sparse page of display text: a few fragments of very different sizes whose boxes overlap one another
		p.kind = "display"
		n := rng.Range(2, 8)
		y := 720
		if rng.Bool() {
			// small one-line fragments side by side on staggered rows, a wide tall one just below whose box reaches up into them
			p.kind = "display-banner"
			k := rng.Range(2, 4)
			x := 60 + 10*rng.Intn(6)
			x0 := x
			for i := 0; i < k; i++ {
				w := 40 + 10*rng.Intn(8)
				t := g.tok()
				p.frags = append(p.frags, text.TextFragment{Text: t, X: float64(x), Y: float64(y - 10*rng.Intn(3) - 15*i), Width: float64(w), Height: 12, FontSize: 12, FontName: "F1"})
				p.tokens = append(p.tokens, c09Tok.FindAllString(t, -1)...)
				x += w + 60 + 10*rng.Intn(8)
			}
			size := []int{40, 70, 90}[rng.Intn(3)]
			t := g.tok()
			p.frags = append(p.frags, text.TextFragment{Text: t, X: float64(x0), Y: float64(y - 15*k - 20 - 10*rng.Intn(4)), Width: float64(x - x0 - 60), Height: float64(size), FontSize: float64(size), FontName: "F1"})
			p.tokens = append(p.tokens, c09Tok.FindAllString(t, -1)...)
			n = rng.Range(0, 3)
			y -= 15*k + 140
		}
		for i := 0; i < n; i++ {
			size := []int{12, 12, 12, 30, 70}[rng.Intn(5)]
			t := g.tok()
			f := text.TextFragment{Text: t, X: float64(40 + 10*rng.Intn(40)), Y: float64(y), Width: float64(50 + 10*rng.Intn(30)), Height: float64(size), FontSize: float64(size), FontName: "F1"}
			p.frags = append(p.frags, f)
			p.tokens = append(p.tokens, c09Tok.FindAllString(t, -1)...)
			y -= []int{8, 15, 20, 40, 90}[rng.Intn(5)]
			if y < 60 {
				break
			}
		}
		return p
	}
	if rng.Chance(1, 6) {
		// two or three columns on integer coordinates with short fragments centred exactly on the middle of a gutter
		p.kind = "gutter-centre"
		ncol := rng.Range(2, 3)
		words := rng.Range(3, 5)
		wordW, step := 40, 47
		colW := (words-1)*step + wordW
		gap := []int{40, 52, 60}[rng.Intn(3)]
		left := 50
		rows := rng.Range(8, 14)
		for c := 0; c < ncol; c++ {
			x0 := left + c*(colW+gap)
			for rw := 0; rw < rows; rw++ {
				for k := 0; k < words; k++ {
					t := g.tok()
					p.frags = append(p.frags, text.TextFragment{Text: t, X: float64(x0 + k*step), Y: float64(700 - 13*rw), Width: float64(wordW), Height: 10, FontSize: 10, FontName: "F1", Direction: text.LTR})
					p.tokens = append(p.tokens, c09Tok.FindAllString(t, -1)...)
				}
			}
		}
		// below the columns: one short fragment (a page number) whose centre lies within two points of the middle of
		// the first gutter, on a half-point grid: the detector's own gutter centre is one of these positions
		centre := float64(left+colW) + float64(gap)/2
		d := float64(rng.Range(-4, 4)) / 2
		t := g.tok()
		p.frags = append(p.frags, text.TextFragment{Text: t, X: centre + d - 5, Y: float64([]int{100, 60, 700 - 13*rows - 40}[rng.Intn(3)]), Width: 10, Height: 10, FontSize: 10, FontName: "F1", Direction: text.LTR})
		p.tokens = append(p.tokens, c09Tok.FindAllString(t, -1)...)
		return p
	}
	ncol := rng.Range(1, 4)
	p.kind = fmt.Sprintf("%dcol", ncol)
	margin := 50.0
	gap := float64(rng.Range(15, 40))
	colW := (p.w - 2*margin - gap*float64(ncol-1)) / float64(ncol)
	size := float64(rng.Range(8, 14))
	add := func(s string, x, y, w, h float64, dir text.Direction) {
		p.frags = append(p.frags, text.TextFragment{Text: s, X: x, Y: y, Width: w, Height: h, FontSize: h, FontName: "F1", Direction: dir})
		p.tokens = append(p.tokens, c09Tok.FindAllString(s, -1)...)
	}
	y0 := p.h - 60
	// a spanning title
	if rng.Bool() {
		t := g.tok() + " " + g.tok() + " " + g.tok()
		tw := float64(len(t)) * size
		add(t, (p.w-tw)/2, y0, tw, size*1.8, text.LTR)
		y0 -= size * 3
		p.kind += "+title"
	}
	charFrag := rng.Chance(1, 6)
	rtl := rng.Chance(1, 8)
	if charFrag {
		p.kind += "+chars"
	}
	if rtl {
		p.kind += "+rtl"
	}
	allNarrow := rng.Chance(1, 10)
	if allNarrow {
		p.kind += "+narrow"
	}
	for c := 0; c < ncol; c++ {
		x0 := margin + float64(c)*(colW+gap)
		y := y0
		nlines := rng.Range(1, 14)
		// a column of single words is narrower than any column the detector accepts
		narrowCol := allNarrow || rng.Chance(1, 5)
		for ln := 0; ln < nlines; ln++ {
			if y < 60 {
				break
			}
			lineSize := size
			if rng.Chance(1, 10) {
				lineSize = size * 1.6 // a heading
			}
			x := x0
			nwords := rng.Range(1, 7)
			if rng.Chance(1, 8) || narrowCol {
				nwords = 1
			}
			justified := rng.Bool()
			if rng.Chance(1, 9) && !narrowCol {
				// a list item
				b := []string{"*", "-", "1.", "a)"}[rng.Intn(4)]
				add(b, x, y, lineSize*0.6, lineSize, text.LTR)
				x += lineSize * 1.2
			}
			for wd := 0; wd < nwords; wd++ {
				t := g.tok()
				ww := float64(len(t)) * lineSize * 0.5
				if x+ww > x0+colW {
					break
				}
				dir := text.LTR
				if rtl {
					dir = text.RTL
				}
				if charFrag {
					cw := ww / float64(len(t))
					// the token split into two halves that only together match the token pattern
					add(t[:2], x, y, cw*2, lineSize, dir)
					add(t[2:], x+cw*2, y, ww-cw*2, lineSize, dir)
					// glue: tokens are found again in the concatenation
					p.tokens = append(p.tokens, t)
				} else {
					add(t, x, y, ww, lineSize, dir)
				}
				sp := lineSize * 0.3
				if justified {
					sp = lineSize * (0.3 + float64(rng.Intn(10))/10)
				}
				x += ww + sp
			}
			y -= lineSize * (1.2 + float64(rng.Intn(3))*0.4)
			if rng.Chance(1, 6) {
				y -= lineSize // paragraph gap
			}
		}
	}
	if rng.Chance(1, 10) {
		// an overlapping duplicate layer (fake bold): same text at (almost) the same place
		n := len(p.frags)
		for i := 0; i < n; i += 3 {
			f := p.frags[i]
			f.X += 0.2
			p.frags = append(p.frags, f)
		}
		p.kind += "+dup"
	}
	if rng.Chance(1, 10) {
		// inverted Y: origin at the top
		for i := range p.frags {
			p.frags[i].Y = p.h - p.frags[i].Y
		}
		p.kind += "+invY"
	}
	if rng.Chance(1, 10) {
		k := []float64{0.1, 10}[rng.Intn(2)]
		for i := range p.frags {
			f := &p.frags[i]
			f.X, f.Y, f.Width, f.Height, f.FontSize = f.X*k, f.Y*k, f.Width*k, f.Height*k, f.FontSize*k
		}
		p.w, p.h = p.w*k, p.h*k
		p.kind += "+scaled"
	}
	if rng.Bool() {
		// content stream order need not be reading order
		for i := len(p.frags) - 1; i > 0; i-- {
			j := rng.Intn(i + 1)
			p.frags[i], p.frags[j] = p.frags[j], p.frags[i]
		}
	}
	return p
}

// directed builds pages that run before the random ones: two or three columns of full lines and one wide
// centred line that crosses the gutters at a chosen distance above the body, below it, or between two of its lines.
func (g *c09gen) directed() []c09page {
	var out []c09page
	for _, ncol := range []int{2, 3} {
		for _, dy := range []int{4, 10, 16, 20, 21, 30, 60, -4, -12, -20, -40, 1000} {
			p := c09page{w: 612, h: 792, kind: fmt.Sprintf("%dcol+wide-line@%d", ncol, dy)}
			add := func(s string, x, y, w, h float64) {
				p.frags = append(p.frags, text.TextFragment{Text: s, X: x, Y: y, Width: w, Height: h, FontSize: h, FontName: "F1", Direction: text.LTR})
				p.tokens = append(p.tokens, c09Tok.FindAllString(s, -1)...)
			}
			gap := 30.0
			colW := (612 - 100 - gap*float64(ncol-1)) / float64(ncol)
			top, rows := 640.0, 10
			for c := 0; c < ncol; c++ {
				x0 := 50 + float64(c)*(colW+gap)
				for rw := 0; rw < rows; rw++ {
					x := x0
					for x+40 <= x0+colW {
						add(g.tok(), x, top-14*float64(rw), 36, 10)
						x += 42
					}
				}
			}
			bottom := top - 14*float64(rows-1)
			y := top + float64(dy)
			switch {
			case dy == 1000:
				y = top - 14*4 - 7 // between two body lines
			case dy < 0:
				y = bottom + float64(dy)
			}
			// the wide line: words side by side from 30% to 70% of the page width, one of them over each gutter
			for x := 170.0; x+40 <= 450; x += 44 {
				add(g.tok(), x, y, 40, 12)
			}
			out = append(out, p)
		}
	}
	// two or three columns that each open with a larger heading on one baseline; and a line of its own made of
	// fragments without width (glyphs whose advance is unknown) above a two-column body
	for _, variant := range []string{"twin-headings", "triple-headings", "zero-width-line"} {
		ncol := 2
		if variant == "triple-headings" {
			ncol = 3
		}
		p := c09page{w: 612, h: 792, kind: fmt.Sprintf("%dcol+directed:%s", ncol, variant)}
		add := func(s string, x, y, w, h float64) {
			p.frags = append(p.frags, text.TextFragment{Text: s, X: x, Y: y, Width: w, Height: h, FontSize: h, FontName: "F1", Direction: text.LTR})
			p.tokens = append(p.tokens, c09Tok.FindAllString(s, -1)...)
		}
		gap := 30.0
		colW := (612 - 100 - gap*float64(ncol-1)) / float64(ncol)
		for c := 0; c < ncol; c++ {
			x0 := 50 + float64(c)*(colW+gap)
			if variant != "zero-width-line" {
				add(g.tok(), x0, 680, 90, 18)
			}
			for rw := 0; rw < 9; rw++ {
				for x := x0; x+40 <= x0+colW; x += 42 {
					add(g.tok(), x, 640-14*float64(rw), 36, 10)
				}
			}
		}
		if variant == "zero-width-line" {
			// each on a line of its own: the visible extent of such a line is empty
			add(g.tok(), 300, 700, 0, 10)
			add(g.tok(), 80, 718, 0, 10)
			add(g.tok(), 520, 736, 0, 10)
		}
		out = append(out, p)
	}
	// one column: a numbered heading in a larger size above body text; and words followed by fragments that
	// hold only a blank, on a page in small units (glyphs under 5 units high) and with a one-letter last line
	for _, variant := range []string{"numbered-heading", "blank-fragments-small-units", "blank-fragments-short-last-line"} {
		p := c09page{w: 612, h: 792, kind: "1col+directed:" + variant}
		k := 1.0
		if variant == "blank-fragments-small-units" {
			k = 0.1
			p.w, p.h = 61.2, 79.2
		}
		add := func(s string, x, y, w, h float64) {
			p.frags = append(p.frags, text.TextFragment{Text: s, X: x * k, Y: y * k, Width: w * k, Height: h * k, FontSize: h * k, FontName: "F1", Direction: text.LTR})
			p.tokens = append(p.tokens, c09Tok.FindAllString(s, -1)...)
		}
		blanks := variant != "numbered-heading"
		if !blanks {
			add("2. "+g.tok()+" and "+g.tok(), 72, 700, 260, 20)
		}
		for rw := 0; rw < 6; rw++ {
			x := 72.0
			for wd := 0; wd < 7; wd++ {
				add(g.tok(), x, 660-14*float64(rw), 40, 10)
				x += 40
				if blanks {
					add(" ", x, 660-14*float64(rw), 3, 10)
				}
				x += 6
			}
		}
		if variant == "blank-fragments-short-last-line" {
			// the last line of the paragraph: one letter and a blank, apart from the lines above
			add("a", 72, 660-14*6-30, 6, 10)
			add(" ", 78, 660-14*6-30, 3, 10)
		}
		out = append(out, p)
	}
	return out
}

// c09Diff compares the tokens found with the tokens of the page (as multisets, duplicate layer aside).
func c09Diff(found []string, want []string, dupLayer bool) string {
	fc, wc := map[string]int{}, map[string]int{}
	for _, t := range found {
		fc[t]++
	}
	for _, t := range want {
		wc[t]++
	}
	var missing, extra []string
	for t, n := range wc {
		if fc[t] == 0 {
			missing = append(missing, t)
		} else if fc[t] > n || (!dupLayer && fc[t] != n) {
			extra = append(extra, t)
		}
	}
	for t := range fc {
		if wc[t] == 0 {
			extra = append(extra, t+"?")
		}
	}
	sort.Strings(missing)
	sort.Strings(extra)
	if len(missing) == 0 && len(extra) == 0 {
		return ""
	}
	if len(missing) > 4 {
		missing = append(missing[:4], "...")
	}
	if len(extra) > 4 {
		extra = append(extra[:4], "...")
	}
	return fmt.Sprintf("missing %v, repeated or invented %v", missing, extra)
}

func fragTokens(fs []text.TextFragment) []string {
	var b strings.Builder
	for _, f := range fs {
		b.WriteString(f.Text)
	}
	// fragments of one word are adjacent in every grouping that keeps them together; count per fragment instead
	var out []string
	for _, f := range fs {
		out = append(out, c09Tok.FindAllString(f.Text, -1)...)
	}
	_ = b
	return out
}

func init() {
	props["C09"] = func(r *Run, rng *RNG) {
		thorough := r.Tier == "thorough"
		r.Rule = "synthetic pages of 1..4 columns with 1..14 lines each: ragged and justified word spacing, headings of larger size, single-word lines, list markers, paragraph gaps, an optional spanning title, right-to-left runs, words split into two fragments, an overlapping duplicate layer, inverted Y, coordinates scaled by 0.1 and 10, fragments in reading order or shuffled; every fragment carries a unique token. non-trivial = at least 2 columns"
		g := &c09gen{rng: rng}
		n := 150
		if thorough {
			n = 3000
		}
		dir := (&c09gen{rng: NewRNG(0xC09D), n: 500000}).directed()
		for it := -len(dir); it < n; it++ {
			var p c09page
			if it < 0 {
				p = dir[it+len(dir)]
			} else {
				p = g.page()
			}
			res := layout.NewAnalyzer().Analyze(p.frags, p.w, p.h)
			_ = strings.Contains(p.kind, "+dup")
			chars := strings.Contains(p.kind, "+chars")
			cv := L(I(it), Bs(p.kind), I(len(p.frags)))
			// the tokens carried by whole fragments (split words are checked through the texts)
			var wantFrag []string
			for _, f := range p.frags {
				wantFrag = append(wantFrag, c09Tok.FindAllString(f.Text, -1)...)
			}
			check := func(class string, found []string, want []string) {
				d := c09Diff(found, want, false)
				r.Check(d == "", class, fmt.Sprintf("%s on a page of kind %s: %s", class, p.kind, d), cv)
			}
			if !chars {
				if res.Lines != nil {
					var found []string
					for _, ln := range res.Lines.Lines {
						found = append(found, fragTokens(ln.Fragments)...)
					}
					check("lines-fragments", found, wantFrag)
					var ft []string
					for _, ln := range res.Lines.Lines {
						ft = append(ft, c09Tok.FindAllString(ln.Text, -1)...)
					}
					check("lines-text", ft, wantFrag)
				}
				if res.Columns != nil {
					var found []string
					for _, c := range res.Columns.Columns {
						found = append(found, fragTokens(c.Fragments)...)
					}
					found = append(found, fragTokens(res.Columns.SpanningFragments)...)
					check("columns-fragments", found, wantFrag)
				}
				if res.Blocks != nil {
					var found []string
					for _, b := range res.Blocks.Blocks {
						found = append(found, fragTokens(b.Fragments)...)
					}
					check("blocks-fragments", found, wantFrag)
				}
				if res.ReadingOrder != nil {
					check("reading-order-fragments", fragTokens(res.ReadingOrder.Fragments), wantFrag)
					var found []string
					for _, ln := range res.ReadingOrder.Lines {
						found = append(found, fragTokens(ln.Fragments)...)
					}
					check("reading-order-lines", found, wantFrag)
				}
				if res.Paragraphs != nil {
					var found []string
					for _, pa := range res.Paragraphs.Paragraphs {
						for _, ln := range pa.Lines {
							found = append(found, fragTokens(ln.Fragments)...)
						}
					}
					check("paragraphs-lines", found, wantFrag)
				}
			}
			// the detectors on their own (each is public API with its own defaults)
			if !chars {
				if bl := layout.NewBlockDetector().Detect(p.frags, p.w, p.h); bl != nil {
					var found []string
					for _, b := range bl.Blocks {
						found = append(found, fragTokens(b.Fragments)...)
					}
					check("block-detector-fragments", found, wantFrag)
					check("block-detector-all-fragments", fragTokens(bl.GetAllFragments()), wantFrag)
				}
				if cl := layout.NewColumnDetector().Detect(p.frags, p.w, p.h); cl != nil {
					var found []string
					for _, c := range cl.Columns {
						found = append(found, fragTokens(c.Fragments)...)
					}
					found = append(found, fragTokens(cl.SpanningFragments)...)
					check("column-detector-fragments", found, wantFrag)
				}
				if ro := layout.NewReadingOrderDetector().Detect(p.frags, p.w, p.h); ro != nil {
					check("reading-order-detector-fragments", fragTokens(ro.Fragments), wantFrag)
				}
			}
			// texts: the non-whitespace characters as a multiset (the duplicate layer counted once)
			var inChars strings.Builder
			for _, f := range p.frags {
				// layout analysis regroups what it is given: a duplicate layer stays duplicated
				inChars.WriteString(f.Text)
			}
			checkChars := func(class, out string) {
				d := c09CharDiff(out, inChars.String())
				if d != "" && !chars && !strings.Contains(p.kind, "+rtl") {
					// name the tokens
					d += "; " + c09Diff(c09Tok.FindAllString(out, -1), wantFrag, false)
				}
				r.Check(d == "", class, fmt.Sprintf("%s on a page of kind %s: %s", class, p.kind, d), cv)
			}
			checkChars("text", res.GetText())
			var et strings.Builder
			for _, e := range res.Elements {
				et.WriteString(e.Text + "\n")
			}
			// directed pages have a class of their own: the recorded finding is about the random pages
			if i := strings.Index(p.kind, "+directed:"); i >= 0 {
				checkChars("elements-text:"+p.kind[i+len("+directed:"):], et.String())
			} else {
				checkChars("elements-text", et.String())
			}
			if res.Paragraphs != nil {
				checkChars("paragraphs-text", res.Paragraphs.GetText())
			}
			if res.ReadingOrder != nil {
				var lt strings.Builder
				for _, ln := range res.ReadingOrder.Lines {
					lt.WriteString(ln.Text + "\n")
				}
				checkChars("reading-order-line-texts", lt.String())
			}
			// the same page through the public API, in every text mode
			if it%3 == 0 && !strings.Contains(p.kind, "+") {
				var pls []pdfLine
				for _, f := range p.frags {
					pls = append(pls, pdfLine{x: int(f.X), y: int(f.Y), size: int(f.Height), text: f.Text})
				}
				path := tmpFile(r, ".pdf", mkPDFLines([][]pdfLine{pls}, 612, 792))
				modes := map[string]func() (string, error){
					"default":         func() (string, error) { t, _, e := tabula.Open(path).Text(); return t, e },
					"by-column":       func() (string, error) { t, _, e := tabula.Open(path).ByColumn().Text(); return t, e },
					"preserve-layout": func() (string, error) { t, _, e := tabula.Open(path).PreserveLayout().Text(); return t, e },
					"join-paragraphs": func() (string, error) { t, _, e := tabula.Open(path).JoinParagraphs().Text(); return t, e },
					"no-headers":      func() (string, error) { t, _, e := tabula.Open(path).ExcludeHeadersAndFooters().Text(); return t, e },
				}
				for name, fn := range modes {
					out, err := fn()
					if err != nil {
						r.Check(false, "api-error:"+name, err.Error(), cv)
						continue
					}
					d := c09CharDiff(out, inChars.String())
					if d != "" {
						d += "; " + c09Diff(c09Tok.FindAllString(out, -1), wantFrag, false)
					}
					r.Check(d == "", "api-text:"+name, fmt.Sprintf("text mode %s on a page of kind %s: %s", name, p.kind, d), cv)
				}
				os.Remove(path)
			}
			// correspondence: each structure must be a regrouping of the input. The decisions the
			// implementation took (which group, which place) are read off its output and given to the
			// model as oracles; the model rebuilds the groups from the input fragments.
			ids := map[string]int{}
			fid := func(f text.TextFragment) string { return fmt.Sprintf("%s@%.3f,%.3f", f.Text, f.X, f.Y) }
			for i, f := range p.frags {
				ids[fid(f)] = i
			}
			nf := len(p.frags)
			one := func(tag string, groups [][]text.TextFragment) {
				k := len(groups)
				keys := make([]int, nf)
				poss := make([]int, nf)
				for i := range keys {
					keys[i] = k
				}
				gv := VL{}
				seen := map[int]bool{}
				for gi, g := range groups {
					row := VL{}
					for pi, f := range g {
						id, ok := ids[fid(f)]
						if !ok {
							id = nf // an invented fragment
						}
						row = append(row, I(id))
						if ok && !seen[id] {
							seen[id] = true
							keys[id], poss[id] = gi, pi
						}
					}
					gv = append(gv, row)
				}
				kv, pv := VL{}, VL{}
				for i := 0; i < nf; i++ {
					kv = append(kv, I(keys[i]))
					pv = append(pv, I(poss[i]))
				}
				r.Case(L(I(0), I(nf), I(k), kv, pv), L(gv, L()), "regroup:"+tag, k >= 2)
			}
			two := func(tag string, groups [][][]text.TextFragment) {
				k1, k2 := len(groups), 0
				for _, g := range groups {
					if len(g) > k2 {
						k2 = len(g)
					}
				}
				keys1, keys2, poss := make([]int, nf), make([]int, nf), make([]int, nf)
				for i := range keys1 {
					keys1[i], keys2[i] = k1, k2
				}
				seen := map[int]bool{}
				ggv := VL{}
				for gi, g := range groups {
					gv := VL{}
					for li := 0; li < k2; li++ {
						row := VL{}
						if li < len(g) {
							for pi, f := range g[li] {
								id, ok := ids[fid(f)]
								if !ok {
									id = nf
								}
								row = append(row, I(id))
								if ok && !seen[id] {
									seen[id] = true
									keys1[id], keys2[id], poss[id] = gi, li, pi
								}
							}
						}
						gv = append(gv, row)
					}
					ggv = append(ggv, gv)
				}
				k1v, k2v, pv := VL{}, VL{}, VL{}
				for i := 0; i < nf; i++ {
					k1v = append(k1v, I(keys1[i]))
					k2v = append(k2v, I(keys2[i]))
					pv = append(pv, I(poss[i]))
				}
				r.Case(L(I(1), I(nf), I(k1), I(k2), k1v, k2v, pv), L(ggv, L()), "regroup2:"+tag, k1 >= 2)
			}
			if res.Lines != nil {
				var gs [][]text.TextFragment
				for _, ln := range res.Lines.Lines {
					gs = append(gs, ln.Fragments)
				}
				one("lines", gs)
			}
			if res.Columns != nil {
				var gs [][]text.TextFragment
				for _, c := range res.Columns.Columns {
					gs = append(gs, c.Fragments)
				}
				gs = append(gs, res.Columns.SpanningFragments)
				one("columns", gs)
			}
			if res.Blocks != nil {
				var gs [][]text.TextFragment
				for _, b := range res.Blocks.Blocks {
					gs = append(gs, b.Fragments)
				}
				one("blocks", gs)
			}
			if res.ReadingOrder != nil {
				one("reading-order", [][]text.TextFragment{res.ReadingOrder.Fragments})
				var ss [][][]text.TextFragment
				for _, sec := range res.ReadingOrder.Sections {
					var ls [][]text.TextFragment
					for _, ln := range sec.Lines {
						ls = append(ls, ln.Fragments)
					}
					ss = append(ss, ls)
				}
				two("sections", ss)
			}
			if res.Paragraphs != nil {
				var ps [][][]text.TextFragment
				for _, pa := range res.Paragraphs.Paragraphs {
					var ls [][]text.TextFragment
					for _, ln := range pa.Lines {
						ls = append(ls, ln.Fragments)
					}
					ps = append(ps, ls)
				}
				two("paragraphs", ps)
			}
		}
	}
}

// c09CharDiff compares the non-whitespace characters of two texts as multisets (bullets and list
// numbering that a renderer adds are not part of the input and are ignored on both sides).
func c09CharDiff(out, in string) string {
	count := func(s string) map[rune]int {
		m := map[rune]int{}
		for _, c := range s {
			if c == ' ' || c == '\n' || c == '\t' || c == '\r' || c == '\u00a0' {
				continue
			}
			m[c]++
		}
		return m
	}
	oc, ic := count(out), count(in)
	var diffs []string
	for c, n := range ic {
		if oc[c] != n {
			diffs = append(diffs, fmt.Sprintf("%q %d->%d", c, n, oc[c]))
		}
	}
	for c, n := range oc {
		if ic[c] == 0 {
			diffs = append(diffs, fmt.Sprintf("%q 0->%d", c, n))
		}
	}
	sort.Strings(diffs)
	if len(diffs) == 0 {
		return ""
	}
	if len(diffs) > 6 {
		diffs = append(diffs[:6], "...")
	}
	return "characters " + strings.Join(diffs, ", ")
}

// tokensDedup: every token once (split words were recorded twice: by half and whole)
func (p c09page) tokensDedup() []string {
	seen := map[string]bool{}
	var out []string
	for _, t := range p.tokens {
		if !seen[t] {
			seen[t] = true
			out = append(out, t)
		}
	}
	if strings.Contains(p.kind, "+dup") {
		return out
	}
	return out
}
