package main

import (
	"fmt"
	"regexp"
	"sort"
	"strings"

	"github.com/tsawler/tabula/layout"
	"github.com/tsawler/tabula/text"
)

var c09Tok = regexp.MustCompile(`t[0-9]+x`)

type c09page struct {
	frags  []text.TextFragment
	w, h   float64
	tokens []string
	kind   string
}

type c09gen struct {
	rng *RNG
	n   int
}

func (g *c09gen) tok() string {
	g.n++
	return fmt.Sprintf("t%dx", g.n)
}

// page builds a synthetic page: columns of lines of words.
func (g *c09gen) page() c09page {
	rng := g.rng
	p := c09page{w: 612, h: 792}
	ncol := rng.Range(1, 4)
	p.kind = fmt.Sprintf("%dcol", ncol)
	margin := 50.0
	gap := float64(rng.Range(15, 40))
	colW := (p.w - 2*margin - gap*float64(ncol-1)) / float64(ncol)
	size := float64(rng.Range(8, 14))
	add := func(s string, x, y, w, h float64, dir text.Direction) {
		p.frags = append(p.frags, text.TextFragment{Text: s, X: x, Y: y, Width: w, Height: h, FontSize: h, FontName: "F1", Direction: dir})
		p.tokens = append(p.tokens, c09Tok.FindAllString(s, -1)...)
	}
	y0 := p.h - 60
	// a spanning title
	if rng.Bool() {
		t := g.tok() + " " + g.tok() + " " + g.tok()
		tw := float64(len(t)) * size
		add(t, (p.w-tw)/2, y0, tw, size*1.8, text.LTR)
		y0 -= size * 3
		p.kind += "+title"
	}
	charFrag := rng.Chance(1, 6)
	rtl := rng.Chance(1, 8)
	if charFrag {
		p.kind += "+chars"
	}
	if rtl {
		p.kind += "+rtl"
	}
	for c := 0; c < ncol; c++ {
		x0 := margin + float64(c)*(colW+gap)
		y := y0
		nlines := rng.Range(1, 14)
		for ln := 0; ln < nlines; ln++ {
			if y < 60 {
				break
			}
			lineSize := size
			if rng.Chance(1, 10) {
				lineSize = size * 1.6 // a heading
			}
			x := x0
			nwords := rng.Range(1, 7)
			if rng.Chance(1, 8) {
				nwords = 1
			}
			justified := rng.Bool()
			if rng.Chance(1, 9) {
				// a list item
				b := []string{"•", "-", "1.", "a)"}[rng.Intn(4)]
				add(b, x, y, lineSize*0.6, lineSize, text.LTR)
				x += lineSize * 1.2
			}
			for wd := 0; wd < nwords; wd++ {
				t := g.tok()
				ww := float64(len(t)) * lineSize * 0.5
				if x+ww > x0+colW {
					break
				}
				dir := text.LTR
				if rtl {
					dir = text.RTL
				}
				if charFrag {
					cw := ww / float64(len(t))
					// the token split into two halves that only together match the token pattern
					add(t[:2], x, y, cw*2, lineSize, dir)
					add(t[2:], x+cw*2, y, ww-cw*2, lineSize, dir)
					// glue: tokens are found again in the concatenation
					p.tokens = append(p.tokens, t)
				} else {
					add(t, x, y, ww, lineSize, dir)
				}
				sp := lineSize * 0.3
				if justified {
					sp = lineSize * (0.3 + float64(rng.Intn(10))/10)
				}
				x += ww + sp
			}
			y -= lineSize * (1.2 + float64(rng.Intn(3))*0.4)
			if rng.Chance(1, 6) {
				y -= lineSize // paragraph gap
			}
		}
	}
	if rng.Chance(1, 10) {
		// an overlapping duplicate layer (fake bold): same text at (almost) the same place
		n := len(p.frags)
		for i := 0; i < n; i += 3 {
			f := p.frags[i]
			f.X += 0.2
			p.frags = append(p.frags, f)
		}
		p.kind += "+dup"
	}
	if rng.Chance(1, 10) {
		// inverted Y: origin at the top
		for i := range p.frags {
			p.frags[i].Y = p.h - p.frags[i].Y
		}
		p.kind += "+invY"
	}
	if rng.Chance(1, 10) {
		k := []float64{0.1, 10}[rng.Intn(2)]
		for i := range p.frags {
			f := &p.frags[i]
			f.X, f.Y, f.Width, f.Height, f.FontSize = f.X*k, f.Y*k, f.Width*k, f.Height*k, f.FontSize*k
		}
		p.w, p.h = p.w*k, p.h*k
		p.kind += "+scaled"
	}
	if rng.Bool() {
		// content stream order need not be reading order
		for i := len(p.frags) - 1; i > 0; i-- {
			j := rng.Intn(i + 1)
			p.frags[i], p.frags[j] = p.frags[j], p.frags[i]
		}
	}
	return p
}

// c09Diff compares the tokens found with the tokens of the page (as multisets, duplicate layer aside).
func c09Diff(found []string, want []string, dupLayer bool) string {
	fc, wc := map[string]int{}, map[string]int{}
	for _, t := range found {
		fc[t]++
	}
	for _, t := range want {
		wc[t]++
	}
	var missing, extra []string
	for t, n := range wc {
		if fc[t] == 0 {
			missing = append(missing, t)
		} else if fc[t] > n || (!dupLayer && fc[t] != n) {
			extra = append(extra, t)
		}
	}
	for t := range fc {
		if wc[t] == 0 {
			extra = append(extra, t+"?")
		}
	}
	sort.Strings(missing)
	sort.Strings(extra)
	if len(missing) == 0 && len(extra) == 0 {
		return ""
	}
	if len(missing) > 4 {
		missing = append(missing[:4], "...")
	}
	if len(extra) > 4 {
		extra = append(extra[:4], "...")
	}
	return fmt.Sprintf("missing %v, repeated or invented %v", missing, extra)
}

func fragTokens(fs []text.TextFragment) []string {
	var b strings.Builder
	for _, f := range fs {
		b.WriteString(f.Text)
	}
	// fragments of one word are adjacent in every grouping that keeps them together; count per fragment instead
	var out []string
	for _, f := range fs {
		out = append(out, c09Tok.FindAllString(f.Text, -1)...)
	}
	_ = b
	return out
}

func init() {
	props["C09"] = func(r *Run, rng *RNG) {
		thorough := r.Tier == "thorough"
		r.Rule = "synthetic pages of 1..4 columns with 1..14 lines each: ragged and justified word spacing, headings of larger size, single-word lines, list markers, paragraph gaps, an optional spanning title, right-to-left runs, words split into two fragments, an overlapping duplicate layer, inverted Y, coordinates scaled by 0.1 and 10, fragments in reading order or shuffled; every fragment carries a unique token. non-trivial = at least 2 columns"
		g := &c09gen{rng: rng}
		n := 150
		if thorough {
			n = 3000
		}
		for it := 0; it < n; it++ {
			p := g.page()
			res := layout.NewAnalyzer().Analyze(p.frags, p.w, p.h)
			_ = strings.Contains(p.kind, "+dup")
			chars := strings.Contains(p.kind, "+chars")
			cv := L(I(it), Bs(p.kind), I(len(p.frags)))
			// the tokens carried by whole fragments (split words are checked through the texts)
			var wantFrag []string
			for _, f := range p.frags {
				wantFrag = append(wantFrag, c09Tok.FindAllString(f.Text, -1)...)
			}
			check := func(class string, found []string, want []string) {
				d := c09Diff(found, want, false)
				r.Check(d == "", class, fmt.Sprintf("%s on a page of kind %s: %s", class, p.kind, d), cv)
			}
			if !chars {
				if res.Lines != nil {
					var found []string
					for _, ln := range res.Lines.Lines {
						found = append(found, fragTokens(ln.Fragments)...)
					}
					check("lines-fragments", found, wantFrag)
					var ft []string
					for _, ln := range res.Lines.Lines {
						ft = append(ft, c09Tok.FindAllString(ln.Text, -1)...)
					}
					check("lines-text", ft, wantFrag)
				}
				if res.Columns != nil {
					var found []string
					for _, c := range res.Columns.Columns {
						found = append(found, fragTokens(c.Fragments)...)
					}
					found = append(found, fragTokens(res.Columns.SpanningFragments)...)
					check("columns-fragments", found, wantFrag)
				}
				if res.Blocks != nil {
					var found []string
					for _, b := range res.Blocks.Blocks {
						found = append(found, fragTokens(b.Fragments)...)
					}
					check("blocks-fragments", found, wantFrag)
				}
				if res.ReadingOrder != nil {
					check("reading-order-fragments", fragTokens(res.ReadingOrder.Fragments), wantFrag)
					var found []string
					for _, ln := range res.ReadingOrder.Lines {
						found = append(found, fragTokens(ln.Fragments)...)
					}
					check("reading-order-lines", found, wantFrag)
				}
				if res.Paragraphs != nil {
					var found []string
					for _, pa := range res.Paragraphs.Paragraphs {
						for _, ln := range pa.Lines {
							found = append(found, fragTokens(ln.Fragments)...)
						}
					}
					check("paragraphs-lines", found, wantFrag)
				}
			}
			// texts: the non-whitespace characters as a multiset (the duplicate layer counted once)
			var inChars strings.Builder
			for _, f := range p.frags {
				// layout analysis regroups what it is given: a duplicate layer stays duplicated
				inChars.WriteString(f.Text)
			}
			checkChars := func(class, out string) {
				d := c09CharDiff(out, inChars.String())
				if d != "" && !chars && !strings.Contains(p.kind, "+rtl") {
					// name the tokens
					d += "; " + c09Diff(c09Tok.FindAllString(out, -1), wantFrag, false)
				}
				r.Check(d == "", class, fmt.Sprintf("%s on a page of kind %s: %s", class, p.kind, d), cv)
			}
			checkChars("text", res.GetText())
			var et strings.Builder
			for _, e := range res.Elements {
				et.WriteString(e.Text + "\n")
			}
			checkChars("elements-text", et.String())
			if res.Paragraphs != nil {
				checkChars("paragraphs-text", res.Paragraphs.GetText())
			}
			if res.ReadingOrder != nil {
				var lt strings.Builder
				for _, ln := range res.ReadingOrder.Lines {
					lt.WriteString(ln.Text + "\n")
				}
				checkChars("reading-order-line-texts", lt.String())
			}
			r.Case(cv, L(), "page:"+strings.SplitN(p.kind, "+", 2)[0], !strings.HasPrefix(p.kind, "1col"))
		}
	}
}

// c09CharDiff compares the non-whitespace characters of two texts as multisets (bullets and list
// numbering that a renderer adds are not part of the input and are ignored on both sides).
func c09CharDiff(out, in string) string {
	count := func(s string) map[rune]int {
		m := map[rune]int{}
		for _, c := range s {
			if c == ' ' || c == '\n' || c == '\t' || c == '\r' || c == '\u00a0' {
				continue
			}
			m[c]++
		}
		return m
	}
	oc, ic := count(out), count(in)
	var diffs []string
	for c, n := range ic {
		if oc[c] != n {
			diffs = append(diffs, fmt.Sprintf("%q %d->%d", c, n, oc[c]))
		}
	}
	for c, n := range oc {
		if ic[c] == 0 {
			diffs = append(diffs, fmt.Sprintf("%q 0->%d", c, n))
		}
	}
	sort.Strings(diffs)
	if len(diffs) == 0 {
		return ""
	}
	if len(diffs) > 6 {
		diffs = append(diffs[:6], "...")
	}
	return "characters " + strings.Join(diffs, ", ")
}

// tokensDedup: every token once (split words were recorded twice: by half and whole)
func (p c09page) tokensDedup() []string {
	seen := map[string]bool{}
	var out []string
	for _, t := range p.tokens {
		if !seen[t] {
			seen[t] = true
			out = append(out, t)
		}
	}
	if strings.Contains(p.kind, "+dup") {
		return out
	}
	return out
}
