package main

import (
	"fmt"
	"os"
	"sort"
	"strings"

	"github.com/tsawler/tabula"
)

func openFDs() int {
	d, err := os.ReadDir("/proc/self/fd")
	if err != nil {
		return -1
	}
	return len(d)
}

type c10Builder struct {
	kind int // 0 Pages, 1 PageRange
	ps   []int
	s, e int
}

func c10Apply(ext *tabula.Extractor, bs []c10Builder) *tabula.Extractor {
	for _, b := range bs {
		if b.kind == 0 {
			ext = ext.Pages(b.ps...)
		} else {
			ext = ext.PageRange(b.s, b.e)
		}
	}
	return ext
}

func c10BuildersV(bs []c10Builder) V {
	var l VL = VL{}
	for _, b := range bs {
		if b.kind == 0 {
			v := VL{I(0)}
			for _, p := range b.ps {
				v = append(v, I(p))
			}
			l = append(l, v)
		} else {
			l = append(l, L(I(1), I(b.s), I(b.e)))
		}
	}
	return l
}

func init() {
	props["C10"] = func(r *Run, rng *RNG) {
		thorough := r.Tier == "thorough"
		r.Rule = "generated PDFs of 1..8 pages (some pages empty) x page selections spelled as chains of Pages(...) and PageRange(s,e) calls (any order, duplicates, empty, reversed ranges, out-of-range numbers) observed through Fragments()/Text()/Document()/Chunks(); the page-join rule; operation sequences (builder, PageCount, IsMultiColumn, Text, Chunks, Close, Close, failing terminals) on a base extractor and extractors derived from it, with the number of open descriptors read from /proc/self/fd after every operation, for PDF and DOCX files. non-trivial = a selection of >=2 builder calls or a sequence of >=4 operations"
		dir := r.OutDir + "/tmp"
		os.MkdirAll(dir, 0o755)
		nDocs := 30
		if thorough {
			nDocs = 600
		}
		for di := 0; di < nDocs; di++ {
			np := rng.Range(1, 8)
			var pages [][]pdfLine
			var texts []string
			for p := 0; p < np; p++ {
				if np > 2 && rng.Chance(1, 7) {
					pages = append(pages, nil) // an empty page
					texts = append(texts, "")
					continue
				}
				t := fmt.Sprintf("Unique body of page %d in doc %d", p+1, di)
				ls := []pdfLine{{72, 700, 12, t, 0}, {72, 650, 12, fmt.Sprintf("second line p%d", p+1), 0}}
				if di%3 == 1 {
					// three lines at text leading, then a gap, then a last line: ways of assembling a page differ on this
					ls = []pdfLine{{72, 700, 12, t, 0}, {72, 686, 12, fmt.Sprintf("second line p%d", p+1), 0}, {72, 672, 12, "third line of the paragraph", 0}, {300, 640, 12, "a line set to the right", 0}, {72, 600, 12, "last line", 0}}
				}
				if di%3 == 2 {
					// a title line in a large size: the layout analysis lists it as a heading of this page
					ls = append([]pdfLine{{72, 740, 24, fmt.Sprintf("Heading of sheet %d", p+1), 0}}, ls...)
				}
				if di%3 == 1 && (p == 0 || p == 3) {
					// a page whose text is shown one character at a time (the pages around it are not): how a page
					// is assembled is decided per page
					ls = nil
					for li, line := range []string{t, fmt.Sprintf("second line p%d", p+1)} {
						x := 72
						for _, ch := range line {
							if ch != ' ' {
								ls = append(ls, pdfLine{x, 700 - 50*li, 12, string(ch), 0})
							}
							x += 7
						}
					}
				}
				// a running title and page numbers on every page but the first (a cover)
				if di%2 == 0 && np >= 3 && p > 0 {
					ls = append([]pdfLine{{72, 765, 11, fmt.Sprintf("Running Title of Document %d", di), 0}}, ls...)
					ls = append(ls, pdfLine{300, 30, 10, fmt.Sprintf("Page %d", p+1), 0})
				}
				pages = append(pages, ls)
				texts = append(texts, t)
			}
			path := tmpFile(r, ".pdf", mkPDFLines(pages, 612, 792))
			// the same with header / footer exclusion: what exclusion does to a page does not depend on the selection
			singleX := make([]string, np)
			for p := 1; p <= np; p++ {
				singleX[p-1], _, _ = tabula.Open(path).Pages(p).ExcludeHeadersAndFooters().Text()
			}
			// per-page texts through single-page selections
			single := make([]string, np)
			for p := 1; p <= np; p++ {
				s, _, err := tabula.Open(path).Pages(p).Text()
				if err != nil {
					r.Check(false, "single-page-error", fmt.Sprintf("Pages(%d).Text(): %v", p, err), nil)
				}
				single[p-1] = s
			}
			nSel := 25
			if thorough {
				nSel = 60
			}
			for si := 0; si < nSel; si++ {
				// a selection spelled as a chain of builder calls
				var bs []c10Builder
				nb := rng.Range(0, 4)
				for k := 0; k < nb; k++ {
					if rng.Bool() {
						var ps []int
						for j := rng.Range(0, 4); j > 0; j-- {
							p := rng.Range(1, np)
							if rng.Chance(1, 15) {
								p = []int{0, -1, np + 1, np + 5}[rng.Intn(4)]
							}
							ps = append(ps, p)
						}
						bs = append(bs, c10Builder{kind: 0, ps: ps})
					} else {
						s, e := rng.Range(1, np), rng.Range(1, np)
						if rng.Chance(1, 15) {
							e = np + rng.Range(1, 3)
						}
						if rng.Chance(1, 15) {
							s = rng.Range(-2, 0)
						}
						bs = append(bs, c10Builder{kind: 1, s: s, e: e})
					}
				}
				cv := L(I(0), I(np), c10BuildersV(bs))
				// flat selection, for the spec side
				var flat []int
				for _, b := range bs {
					if b.kind == 0 {
						flat = append(flat, b.ps...)
					} else {
						for i := b.s; i <= b.e; i++ {
							flat = append(flat, i)
						}
					}
				}
				bad := false
				set := map[int]bool{}
				for _, p := range flat {
					if p < 1 || p > np {
						bad = true
					}
					set[p] = true
				}
				var want []int
				if len(flat) == 0 {
					for p := 1; p <= np; p++ {
						want = append(want, p)
					}
				} else {
					for p := range set {
						want = append(want, p)
					}
					sort.Ints(want)
				}
				// observe the resolved pages through Document()
				doc, _, err := c10Apply(tabula.Open(path), bs).Document()
				var ov V
				if err != nil {
					ov = RErr()
				} else {
					var l VL = VL{}
					for _, pg := range doc.Pages {
						l = append(l, I(pg.Number-1))
					}
					ov = ROk(l)
				}
				r.Case(cv, ov, "resolve", len(bs) >= 2)
				if bad {
					r.Check(err != nil, "out-of-range-accepted", fmt.Sprintf("a page number outside 1..%d was accepted", np), cv)
					_, _, e2 := c10Apply(tabula.Open(path), bs).Text()
					r.Check(e2 != nil, "out-of-range-accepted", "Text() accepted an out-of-range page", cv)
					continue
				}
				okDoc := err == nil && len(doc.Pages) == len(want)
				for i := range want {
					if okDoc && doc.Pages[i].Number != want[i] {
						okDoc = false
					}
				}
				r.Check(okDoc, "document-pages", fmt.Sprintf("Document() pages/page numbers are not %v", want), cv)
				if okDoc {
					// the document's outline names the true source page of every heading
					okT, whyT := true, ""
					for _, e := range doc.TableOfContents() {
						var n int
						if _, err := fmt.Sscanf(e.Text, "Heading of sheet %d", &n); err == nil && n != e.Page {
							okT, whyT = false, fmt.Sprintf("the outline of selection %v places %q on page %d", want, e.Text, e.Page)
						}
					}
					r.Check(okT, "outline-pages", whyT, cv)
				}
				// Text = join of the per-page texts in ascending page order
				txt, _, terr := c10Apply(tabula.Open(path), bs).Text()
				var parts []string
				for _, p := range want {
					if single[p-1] != "" {
						parts = append(parts, single[p-1])
					}
				}
				r.Check(terr == nil && txt == strings.Join(parts, "\n\n"), "text-is-join", fmt.Sprintf("Text() of selection %v is not the join of the single-page texts", want), cv)
				xtxt, _, xerr := c10Apply(tabula.Open(path), bs).ExcludeHeadersAndFooters().Text()
				var xparts []string
				for _, p := range want {
					if singleX[p-1] != "" {
						xparts = append(xparts, singleX[p-1])
					}
				}
				r.Check(xerr == nil && xtxt == strings.Join(xparts, "\n\n"), "text-is-join:exclude-headers", fmt.Sprintf("with header/footer exclusion, Text() of selection %v is %q, the single pages give %q", want, xtxt, strings.Join(xparts, "\n\n")), cv)
				var tv VL = VL{}
				for _, p := range want {
					tv = append(tv, Bs(single[p-1]))
				}
				if terr == nil {
					r.Case(L(I(1), tv), Bs(txt), "join", len(want) >= 2)
				}
				// sibling derivations from one configured base never influence each other (nor the base)
				if si%3 == 0 && !bad {
					base := c10Apply(tabula.Open(path), bs)
					x, y := rng.Range(1, np), rng.Range(1, np)
					a := base.Pages(x)
					b := base.Pages(y)
					_ = b.ExcludeHeaders()
					da, _, ea := a.Document()
					db, _, eb := base.Document()
					wantA := map[int]bool{x: true}
					for p := range set {
						wantA[p] = true
					}
					okSib := ea == nil && eb == nil && len(da.Pages) == len(wantA) && len(db.Pages) == len(want)
					if okSib {
						for _, pg := range da.Pages {
							if !wantA[pg.Number] {
								okSib = false
							}
						}
						for i := range want {
							if db.Pages[i].Number != want[i] {
								okSib = false
							}
						}
					}
					r.Check(okSib, "sibling-interference", fmt.Sprintf("base.Pages(%d) / base changed after deriving base.Pages(%d) from the same base", x, y), cv)
				}
				// chunk page metadata refers to true source pages
				if si%5 == 0 {
					ch, _, cerr := c10Apply(tabula.Open(path), bs).Chunks()
					okC := cerr == nil
					if okC {
						for _, c := range ch.Chunks {
							if !set[c.Metadata.PageStart] && len(flat) > 0 || c.Metadata.PageStart < 1 || c.Metadata.PageEnd > np || c.Metadata.PageStart > c.Metadata.PageEnd {
								okC = false
							}
							for p := c.Metadata.PageStart; p <= c.Metadata.PageEnd && okC; p++ {
								_ = p
							}
							// the chunk's text must come from its page range
							found := false
							for p := c.Metadata.PageStart; p <= c.Metadata.PageEnd && p >= 1 && p <= np; p++ {
								if texts[p-1] != "" && strings.Contains(c.Text, fmt.Sprintf("page %d in doc", p)) {
									found = true
								}
							}
							if strings.Contains(c.Text, "in doc") && !found {
								okC = false
							}
						}
					}
					r.Check(okC, "chunk-pages", "chunk page metadata does not refer to the source pages of its content", cv)
				}
				// fragments of a selection = concatenation of per-page fragments
				if si%7 == 0 {
					fr, _, ferr := c10Apply(tabula.Open(path), bs).Fragments()
					cnt := 0
					for _, p := range want {
						f1, _, _ := tabula.Open(path).Pages(p).Fragments()
						cnt += len(f1)
					}
					r.Check(ferr == nil && len(fr) == cnt, "fragments-concat", "Fragments() of a selection is not the per-page fragments", cv)
				}
			}
			os.Remove(path)
		}
		// ---- life cycle with descriptor counting
		pdfPath := tmpFile(r, ".pdf", mkPDFLines([][]pdfLine{{{72, 700, 12, "one", 0}}, {{72, 700, 12, "two", 0}}, {{72, 700, 12, "three", 0}}}, 612, 792))
		docxPath := tmpFile(r, ".docx", writeZip(mkDOCXSimple([]string{"para one", "para two"})))
		badPath := tmpFile(r, ".pdf", writeZip(mkDOCXSimple([]string{"not a pdf"}))) // DOCX bytes named .pdf: every open fails
		// every terminal operation, successful or failed, releases the handle it opened
		type term struct {
			name string
			f    func(e *tabula.Extractor) error
		}
		terms := []term{
			{"Text", func(e *tabula.Extractor) error { _, _, err := e.Text(); return err }},
			{"Fragments", func(e *tabula.Extractor) error { _, _, err := e.Fragments(); return err }},
			{"Document", func(e *tabula.Extractor) error { _, _, err := e.Document(); return err }},
			{"Chunks", func(e *tabula.Extractor) error { _, _, err := e.Chunks(); return err }},
			{"ToMarkdown", func(e *tabula.Extractor) error { _, _, err := e.ToMarkdown(); return err }},
			{"Lines", func(e *tabula.Extractor) error { _, err := e.Lines(); return err }},
			{"Paragraphs", func(e *tabula.Extractor) error { _, err := e.Paragraphs(); return err }},
			{"Analyze", func(e *tabula.Extractor) error { _, err := e.Analyze(); return err }},
		}
		for _, t := range terms {
			for _, sc := range []struct {
				name string
				mk   func() *tabula.Extractor
				fail bool
			}{
				{"ok", func() *tabula.Extractor { return tabula.Open(pdfPath).Pages(1, 2) }, false},
				{"out-of-range", func() *tabula.Extractor { return tabula.Open(pdfPath).Pages(2, 99) }, true},
				{"mismatch", func() *tabula.Extractor { return tabula.Open(badPath) }, true},
				{"missing", func() *tabula.Extractor { return tabula.Open(pdfPath + ".nope.pdf") }, true},
			} {
				before := openFDs()
				e := sc.mk()
				err := t.f(e)
				after := openFDs()
				r.Check(after == before, "terminal-keeps-handle", fmt.Sprintf("%s (%s): %d descriptor(s) still open after the terminal operation", t.name, sc.name, after-before), Bs(t.name+"/"+sc.name))
				r.Check((err != nil) == sc.fail, "terminal-result", fmt.Sprintf("%s (%s): unexpected result %v", t.name, sc.name, err), Bs(t.name+"/"+sc.name))
				e.Close()
				r.Check(e.Close() == nil, "close-twice", "closing again returned an error", Bs(t.name))
			}
		}
		nSeq := 300
		if thorough {
			nSeq = 8000
		}
		// a derived extractor does not depend on what happens to the extractor it came from
		for _, first := range []string{"PageCount", "IsMultiColumn", "nothing"} {
			base := tabula.Open(pdfPath)
			switch first {
			case "PageCount":
				base.PageCount()
			case "IsMultiColumn":
				base.IsMultiColumn()
			}
			d := base.Pages(2)
			d2 := d.ExcludeHeaders()
			base.Close()
			t1, _, err1 := d.Text()
			t2, _, err2 := d2.Text()
			want, _, _ := tabula.Open(pdfPath).Pages(2).Text()
			r.Check(err1 == nil && err2 == nil && t1 == want, "derived-after-base-close",
				fmt.Sprintf("after base.%s, d := base.Pages(2), base.Close(): d.Text() = %q, %v; d.ExcludeHeaders().Text(): %q, %v; a fresh Pages(2).Text() = %q", first, t1, err1, t2, err2, want), Bs(first))
			d.Close()
			d2.Close()
		}
		for si := 0; si < nSeq; si++ {
			path := pdfPath
			kind := "pdf"
			switch si % 5 {
			case 3:
				path, kind = docxPath, "docx"
			case 4:
				path, kind = badPath, "mismatch"
			}
			base0 := openFDs()
			exts := []*tabula.Extractor{tabula.Open(path)}
			badSel := []bool{false} // the extractor carries an out-of-range page: its PDF terminals fail after opening
			var ops VL = VL{}
			var got VL = VL{}
			n := rng.Range(1, 10)
			okAll := true
			for k := 0; k < n; k++ {
				i := rng.Intn(len(exts))
				opensOK := kind != "mismatch"
				switch rng.Intn(7) {
				case 0, 1:
					var d *tabula.Extractor
					switch rng.Intn(4) {
					case 0:
						d = exts[i].Pages(1)
					case 1:
						d = exts[i].ExcludeHeaders()
					case 2:
						d = exts[i].PageRange(1, 2)
					default:
						d = exts[i].JoinParagraphs()
					}
					exts = append(exts, d)
					badSel = append(badSel, badSel[i])
					ops = append(ops, L(I(0), I(i)))
				case 2:
					_, err := exts[i].PageCount()
					if (err == nil) != opensOK {
						okAll = false
					}
					ops = append(ops, L(I(1), I(i), Bool(opensOK)))
				case 3:
					var err error
					if rng.Bool() {
						_, _, err = exts[i].Text()
					} else {
						_, _, err = exts[i].Chunks()
					}
					if (err == nil) != (opensOK && !badSel[i]) {
						okAll = false
					}
					ops = append(ops, L(I(2), I(i), Bool(opensOK)))
				case 4:
					// a terminal operation that fails after the reader was opened (page out of range)
					if kind == "pdf" {
						d := exts[i].Pages(99)
						_, _, err := d.Text()
						if err == nil {
							okAll = false
						}
						// Pages() derives first: record both steps
						ops = append(ops, L(I(0), I(i)))
						exts = append(exts, d)
						badSel = append(badSel, true)
						ops = append(ops, L(I(2), I(len(exts)-1), Bool(true)))
						got = append(got, I(openFDs()-base0))
					} else {
						exts[i].Close()
						ops = append(ops, L(I(3), I(i)))
					}
				default:
					exts[i].Close()
					if rng.Bool() {
						exts[i].Close()
					}
					ops = append(ops, L(I(3), I(i)))
				}
				got = append(got, I(openFDs()-base0))
			}
			// finish: close everything; nothing may remain open
			for _, e := range exts {
				e.Close()
				e.Close()
			}
			cv := L(I(2), ops)
			r.Case(cv, got, "lifecycle:"+kind, n >= 4)
			r.Check(okAll, "lifecycle-result", "an operation failed or succeeded unexpectedly in a builder/terminal sequence", cv)
			r.Check(openFDs() == base0, "handle-leak", fmt.Sprintf("%d descriptors remain open after closing every extractor", openFDs()-base0), cv)
		}
	}
}
