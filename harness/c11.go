package main

import (
	"fmt"
	"os"
	"regexp"
	"sort"
	"strings"

	"github.com/tsawler/tabula"
	"github.com/tsawler/tabula/layout"
	"github.com/tsawler/tabula/text"
)

type c11Frag struct {
	x, y, w, h int
	text       string
}

type c11Page struct {
	index  int
	height int
	frags  []c11Frag
}

var c11DigitRe = regexp.MustCompile(`\d+`)

func c11Norm(s string) string { return c11DigitRe.ReplaceAllString(strings.TrimSpace(s), "#") }

var c11Pats = []string{"#", "page #", "- # -", "# of #", "page # of #", "#/#", "p. #", "p.#", "pg #", "pg. #"}

func c11IsPageNum(s string) bool {
	n := strings.ToLower(strings.TrimSpace(c11Norm(s)))
	for _, p := range c11Pats {
		if n == p {
			return true
		}
	}
	return false
}

var c11Body = []string{"Lorem ipsum dolor sit amet", "consectetur adipiscing elit", "sed do eiusmod tempor", "Table 7 shows results", "42", "1999", "In 2020 the rate was 5", "see page 12 of the report", "Chapter summary", "alpha beta gamma delta"}

func c11Gen(rng *RNG) (pages []c11Page, kind string) {
	np := rng.Range(1, 7)
	height := 792
	inverted := rng.Chance(1, 8)
	if inverted {
		height = 512
	}
	hdrKind := rng.Intn(9) // 8: a running header of two lines, the lower one tall and low in the band; 0 none 1 same text 2 odd/even 3 jittered position 4 varying number in text 5 only on some pages 6 a title of its own on every page, struck twice 7 same text padded with blanks
	ftrKind := rng.Intn(7) // 0 none, 1..5 page number styles, 6 fixed text footer
	styles := []string{"%d", "Page %d", "- %d -", "%d of 9", "p. %d", "%d/9"}
	if rng.Chance(1, 3) {
		// the same styles in another letter case
		styles = []string{"%d", "PAGE %d", "- %d -", "%d OF 9", "P. %d", "%d/9"}
		if rng.Bool() {
			styles = []string{"%d", "page %d", "- %d -", "%d Of 9", "Pg. %d", "%d/9"}
		}
	}
	kind = fmt.Sprintf("h%d-f%d", hdrKind, ftrKind)
	if inverted {
		kind += "-inv"
	}
	for pi := 0; pi < np; pi++ {
		p := c11Page{index: pi, height: height}
		top, bottom := 760, 30
		if inverted {
			// content runs from y=20 (top) to y=1000 (bottom), beyond the page height
			top, bottom = 20, 1000
		}
		nb := rng.Range(0, 6)
		if np > 1 && nb == 0 && rng.Bool() {
			nb = 2
		}
		for j := 0; j < nb; j++ {
			y := rng.Range(110, 680)
			if inverted {
				y = rng.Range(150, 850)
			}
			t := c11Body[rng.Intn(len(c11Body))]
			if rng.Chance(1, 2) {
				t += fmt.Sprintf(" %d", rng.Intn(50))
			}
			p.frags = append(p.frags, c11Frag{72 + rng.Intn(3)*100, y, 200, 12, t})
		}
		switch hdrKind {
		case 1:
			p.frags = append(p.frags, c11Frag{72, top, 180, 12, "Annual Report 2024"})
		case 2:
			if pi%2 == 0 {
				p.frags = append(p.frags, c11Frag{72, top, 150, 12, "Even Header Title"})
			} else {
				p.frags = append(p.frags, c11Frag{300, top, 150, 12, "Odd Header Title"})
			}
		case 3:
			p.frags = append(p.frags, c11Frag{72 + rng.Range(-12, 12), top + rng.Range(-7, 7), 180, 12, "Drifting Header"})
		case 4:
			p.frags = append(p.frags, c11Frag{72, top, 180, 12, fmt.Sprintf("Section %d - Results", pi+1)})
		case 5:
			if rng.Bool() {
				p.frags = append(p.frags, c11Frag{72, top, 180, 12, "Sometimes Header"})
			}
		case 6:
			// fake bold: the page's own title twice at (almost) the same place; nothing repeats across pages
			t := fmt.Sprintf("Title of page %s only", string(rune('A'+pi)))
			p.frags = append(p.frags, c11Frag{72, top, 180, 12, t}, c11Frag{72 + rng.Intn(2), top, 180, 12, t})
		case 7:
			p.frags = append(p.frags, c11Frag{72, top, 180, 12, []string{"Padded Running Header ", " Padded Running Header", "  Padded Running Header  "}[rng.Intn(3)]})
		case 8:
			if !inverted {
				p.frags = append(p.frags, c11Frag{72, top + 17, 180, 10, "Series Title Line"}, c11Frag{72, top - 45, 220, 20, "Tall Running Header"})
			} else {
				p.frags = append(p.frags, c11Frag{72, top, 180, 10, "Series Title Line"})
			}
		}
		if ftrKind >= 1 && ftrKind <= 5 {
			p.frags = append(p.frags, c11Frag{300, bottom, 40, 10, fmt.Sprintf(styles[ftrKind], pi+1)})
		} else if ftrKind == 6 {
			p.frags = append(p.frags, c11Frag{72, bottom, 200, 10, "Confidential - do not copy"})
		}
		// body text that happens to repeat on every page, and a body number
		if rng.Chance(1, 4) {
			p.frags = append(p.frags, c11Frag{72, 400, 200, 12, "Repeated body sentence"})
		}
		if rng.Chance(1, 6) {
			// a short marginal fragment (<= 2 chars) repeated
			p.frags = append(p.frags, c11Frag{500, top, 10, 12, "§"})
		}
		// shuffle fragment order a little (content order is not sorted by position)
		if rng.Bool() && len(p.frags) > 1 {
			i, j := rng.Intn(len(p.frags)), rng.Intn(len(p.frags))
			p.frags[i], p.frags[j] = p.frags[j], p.frags[i]
		}
		pages = append(pages, p)
	}
	return
}

func c11ToLayout(pages []c11Page) []layout.PageFragments {
	var out []layout.PageFragments
	for _, p := range pages {
		pf := layout.PageFragments{PageIndex: p.index, PageHeight: float64(p.height), PageWidth: 612}
		for _, f := range p.frags {
			pf.Fragments = append(pf.Fragments, text.TextFragment{Text: f.text, X: float64(f.x), Y: float64(f.y), Width: float64(f.w), Height: float64(f.h), FontSize: float64(f.h), FontName: "/F1"})
		}
		out = append(out, pf)
	}
	return out
}

func c11CharLevel(fs []c11Frag) bool {
	if len(fs) == 0 {
		return false
	}
	tot := 0
	for _, f := range fs {
		tot += len([]rune(f.text))
	}
	return float64(tot)/float64(len(fs)) <= 2.0
}

func c11RegionKey(typ int, ispn bool, txt string, pages []int) []int {
	k := []int{typ, 0, len(txt)}
	if ispn {
		k[1] = 1
	}
	for i := 0; i < len(txt); i++ {
		k = append(k, int(txt[i]))
	}
	return append(k, pages...)
}

func lexLess(a, b []int) bool {
	for i := 0; i < len(a) && i < len(b); i++ {
		if a[i] != b[i] {
			return a[i] < b[i]
		}
	}
	return len(a) < len(b)
}

func init() {
	props["C11"] = func(r *Run, rng *RNG) {
		thorough := r.Tier == "thorough"
		r.Rule = "multi-page fragment sets with integer coordinates: 1..7 pages, running headers (same text, odd/even, drifting position, numbered section titles, on some pages only), footers with six page-number styles or fixed text, repeating body text, numeric body text, short marginal fragments, empty pages, content beyond the page height (inverted coordinates, page height 512 so the scale is dyadic), character-level pages (property predicates only); Detect + FilterFragments for every page compared with the model; generated PDFs through ExcludeHeadersAndFooters with page subsets. non-trivial = at least one region detected"
		n := 1500
		if thorough {
			n = 60000
		}
		for it := 0; it < n; it++ {
			pages, kind := c11Gen(rng)
			charLevelDoc := it%25 == 24
			if charLevelDoc {
				// split every fragment into single characters
				for pi := range pages {
					var nf []c11Frag
					for _, f := range pages[pi].frags {
						for k, ch := range f.text {
							nf = append(nf, c11Frag{f.x + 6*k, f.y, 6, f.h, string(ch)})
						}
					}
					pages[pi].frags = nf
				}
				kind += "-charlevel"
			}
			lp := c11ToLayout(pages)
			res := layout.NewHeaderFooterDetector().Detect(lp)
			anyChar := false
			for _, p := range pages {
				if c11CharLevel(p.frags) {
					anyChar = true
				}
			}
			// case value
			var pv VL = VL{}
			for _, p := range pages {
				var fv VL = VL{}
				for _, f := range p.frags {
					fv = append(fv, L(I(f.x), I(f.y), I(f.w), I(f.h), Bs(f.text)))
				}
				pv = append(pv, L(I(p.index), I(p.height), fv))
			}
			var qv VL = VL{}
			for i := range pages {
				qv = append(qv, I(i))
			}
			cv := L(pv, qv)
			// observables
			type reg struct {
				key []int
				v   V
			}
			var regs []reg
			add := func(typ int, hs []layout.HeaderFooterRegion) {
				for _, h := range hs {
					var pg VL = VL{}
					for _, x := range h.PageIndices {
						pg = append(pg, I(x))
					}
					regs = append(regs, reg{c11RegionKey(typ, h.IsPageNumber, h.Text, h.PageIndices), L(I(typ), Bs(h.Text), Bool(h.IsPageNumber), pg)})
				}
			}
			add(0, res.Headers)
			add(1, res.Footers)
			sort.SliceStable(regs, func(i, j int) bool { return lexLess(regs[i].key, regs[j].key) })
			var rv VL = VL{}
			for _, g := range regs {
				rv = append(rv, g.v)
			}
			var keptV VL = VL{}
			// texts (normalised) of marginal candidates per page, for the "repeats" predicate
			marg := map[string]map[int]bool{}
			for pi, p := range pages {
				kept := res.FilterFragments(p.index, lp[pi].Fragments, float64(p.height))
				// subsequence check + indices
				var idx VL = VL{}
				j := 0
				for i, f := range lp[pi].Fragments {
					if j < len(kept) && kept[j] == f {
						idx = append(idx, I(i))
						j++
					}
				}
				r.Check(j == len(kept), "not-a-subsequence", "filtered fragments are not a subsequence of the input", cv)
				keptV = append(keptV, idx)
				_ = marg
			}
			if !anyChar {
				r.Case(cv, L(rv, keptV), kind, len(regs) > 0)
			}
			// ---- property predicates
			norms := map[string]map[int]bool{}
			for _, p := range pages {
				for _, f := range p.frags {
					k := c11Norm(f.text)
					if norms[k] == nil {
						norms[k] = map[int]bool{}
					}
					norms[k][p.index] = true
				}
			}
			for pi, p := range pages {
				if len(p.frags) == 0 {
					continue
				}
				kept := res.FilterFragments(p.index, lp[pi].Fragments, float64(p.height))
				keptSet := map[int]bool{}
				j := 0
				for i, f := range lp[pi].Fragments {
					if j < len(kept) && kept[j] == f {
						keptSet[i] = true
						j++
					}
				}
				minY, maxY := p.frags[0].y, p.frags[0].y
				for _, f := range p.frags {
					if f.y < minY {
						minY = f.y
					}
					if f.y+f.h > maxY {
						maxY = f.y + f.h
					}
				}
				ch := maxY - minY
				if ch <= 0 {
					ch = p.height
				}
				band := 72.0
				if ch > p.height {
					band = 72.0 * float64(ch) / float64(p.height)
				}
				for i, f := range p.frags {
					dTop := float64(maxY - (f.y + f.h))
					dBot := float64(f.y - minY)
					if maxY > p.height {
						dTop, dBot = float64(f.y-minY), float64(maxY-(f.y+f.h))
					}
					inBand := dTop < band || dBot < band
					if !keptSet[i] {
						r.Check(inBand, "body-fragment-deleted", fmt.Sprintf("page %d: %q deleted although it lies in the body band", p.index, f.text), cv)
						if !c11CharLevel(p.frags) {
							r.Check(len(norms[c11Norm(f.text)]) >= 2 || c11IsPageNum(f.text), "non-repeating-deleted", fmt.Sprintf("page %d: %q deleted but neither repeats nor is a page number", p.index, f.text), cv)
							// "repeats at that position": some other page carries the same text at (nearly) the same
							// place - twice the detector's tolerances, because positions are compared with the
							// first occurrence, not pairwise
							if !c11IsPageNum(f.text) && !strings.Contains(kind, "-inv") {
								found := false
								for _, q := range pages {
									if q.index == p.index {
										continue
									}
									for _, g := range q.frags {
										dx := g.x - f.x
										dyTop := (q.height - (g.y + g.h)) - (p.height - (f.y + f.h))
										dyBot := g.y - f.y
										if dx < 0 {
											dx = -dx
										}
										if dyTop < 0 {
											dyTop = -dyTop
										}
										if dyBot < 0 {
											dyBot = -dyBot
										}
										if c11Norm(g.text) == c11Norm(f.text) && dx <= 20 && (dyTop <= 10 || dyBot <= 10) {
											found = true
										}
									}
								}
								r.Check(found, "not-at-same-position", fmt.Sprintf("page %d: %q deleted although no other page has it at that position", p.index, f.text), cv)
							}
						}
					}
				}
				if len(pages) == 1 {
					r.Check(len(kept) == len(p.frags), "single-page-changed", "a one-page document was changed", cv)
				}
			}
			// no repetition at all -> identity
			noRep := true
			for k, ps := range norms {
				if len(ps) >= 2 || c11IsPageNum(k) {
					noRep = false
				}
			}
			if noRep {
				same := true
				for pi, p := range pages {
					if len(res.FilterFragments(p.index, lp[pi].Fragments, float64(p.height))) != len(p.frags) {
						same = false
					}
				}
				r.Check(same && len(res.Headers) == 0 && len(res.Footers) == 0, "no-repetition-changed", "a document without repetition was changed", cv)
			}
			// running header / page numbers on every page are removed everywhere
			// (only for documents in ordinary PDF coordinates: the per-page heuristic that guesses a
			// flipped Y axis from content exceeding the page is outside what the property quantifies over)
			if len(pages) >= 2 && !anyChar && !strings.Contains(kind, "-inv") {
				for _, want := range []string{"Annual Report 2024", "Confidential - do not copy"} {
					all := true
					for _, p := range pages {
						has := false
						for _, f := range p.frags {
							if f.text == want {
								has = true
							}
						}
						if !has {
							all = false
						}
					}
					if all {
						gone := true
						for pi, p := range pages {
							for _, f := range res.FilterFragments(p.index, lp[pi].Fragments, float64(p.height)) {
								if f.Text == want {
									gone = false
								}
							}
						}
						r.Check(gone, "running-line-kept", fmt.Sprintf("%q repeats at the same marginal position on every page but was not removed everywhere", want), cv)
					}
				}
				// running page numbers: a footer on every page in a page-number style
				allPN := true
				for _, p := range pages {
					has := false
					for _, f := range p.frags {
						if (f.y == 30 || f.y == 1000) && f.x == 300 && c11IsPageNum(f.text) {
							has = true
						}
					}
					if !has {
						allPN = false
					}
				}
				if allPN {
					gone := true
					for pi, p := range pages {
						for _, f := range res.FilterFragments(p.index, lp[pi].Fragments, float64(p.height)) {
							if (f.Y == 30 || f.Y == 1000) && f.X == 300 && c11IsPageNum(f.Text) {
								gone = false
							}
						}
					}
					r.Check(gone, "page-number-kept", "running page numbers were not removed from every page", cv)
				}
			}
		}
		// ---- through the public API on generated PDFs, with page subsets
		nPDF := 40
		if thorough {
			nPDF = 300
		}
		for it := 0; it < nPDF; it++ {
			np := rng.Range(2, 6)
			var pages [][]pdfLine
			// the running title and the page numbers may be missing on some pages (a cover, a section opener);
			// a page without the title may carry the same words as an ordinary body line
			partial := rng.Chance(1, 2)
			numStyle := []string{"Page %d", "PAGE %d", "page %d", "%d", "- %d -", "P. %d", "Pg %d", "pg. %d", "%d of 9", "PAGE %d OF 9", "%d/9"}[rng.Intn(11)]
			hasTitle := make([]bool, np)
			bodyCopies := make([]bool, np)
			titled := 0
			for pi := 0; pi < np; pi++ {
				hasTitle[pi] = !partial || !(pi == 0 || (pi == np-1 && rng.Bool()) || rng.Chance(1, 5))
				if hasTitle[pi] {
					titled++
				}
			}
			for pi := 0; pi < np; pi++ {
				var ls []pdfLine
				if hasTitle[pi] {
					ls = append(ls, pdfLine{72, 760, 12, "Running Title of the Book", 0})
				} else if rng.Bool() {
					bodyCopies[pi] = true
					ls = append(ls, pdfLine{72, 690, 12, "Running Title of the Book", 0})
				}
				for j := 0; j < rng.Range(2, 6); j++ {
					ls = append(ls, pdfLine{72, 650 - 40*j, 12, fmt.Sprintf("Body line %d of page %d with words", j, pi+1), 0})
				}
				if hasTitle[pi] || !partial {
					ls = append(ls, pdfLine{300, 30, 10, fmt.Sprintf(numStyle, pi+1), 0})
				}
				pages = append(pages, ls)
			}
			path := tmpFile(r, ".pdf", mkPDFLines(pages, 612, 792))
			var sel []int
			for p := 1; p <= np; p++ {
				if rng.Bool() {
					sel = append(sel, p)
				}
			}
			base := tabula.Open(path)
			selPages := sel
			if len(sel) > 0 {
				base = base.Pages(sel...)
			} else {
				for p := 1; p <= np; p++ {
					selPages = append(selPages, p)
				}
			}
			plain, _, e1 := base.Text()
			filt, _, e2 := base.ExcludeHeadersAndFooters().Text()
			base.Close()
			ok := e1 == nil && e2 == nil
			why := ""
			// every line of the filtered text occurs in the unfiltered text; body lines all survive; a title that
			// runs on every page, and running page numbers, are gone
			if ok {
				for _, ln := range strings.Split(filt, "\n") {
					if strings.TrimSpace(ln) != "" && !strings.Contains(plain, strings.TrimSpace(ln)) {
						ok, why = false, "a line that the unfiltered text does not have: "+ln
					}
				}
				if strings.Count(filt, "Body line") != strings.Count(plain, "Body line") {
					ok, why = false, "a body line is missing"
				}
				copies := 0
				for _, p := range selPages {
					if bodyCopies[p-1] {
						copies++
					}
				}
				if strings.Count(filt, "Running Title") < copies {
					ok, why = false, "a body line with the words of the running title is missing"
				}
				if !partial {
					for _, ln := range strings.Split(filt, "\n") {
						t := strings.TrimSpace(ln)
						if t == "Running Title of the Book" {
							ok, why = false, "the running title is still there"
						}
						for _, p := range selPages {
							if t == fmt.Sprintf(numStyle, p) {
								ok, why = false, "a page number is still there: "+t
							}
						}
					}
				}
			}
			// what exclusion does to a page does not depend on which pages are asked for together with it
			if ok {
				var parts []string
				for _, p := range selPages {
					one, _, err := tabula.Open(path).Pages(p).ExcludeHeadersAndFooters().Text()
					if err != nil {
						ok, why = false, fmt.Sprintf("page %d alone: %v", p, err)
					}
					if one != "" {
						parts = append(parts, one)
					}
				}
				if ok && strings.Join(parts, "\n\n") != filt {
					ok, why = false, fmt.Sprintf("the pages together give %q, one by one %q", filt, strings.Join(parts, "\n\n"))
				}
			}
			_ = titled
			// the other terminal operations exclude the same way
			if ok {
				sel2 := func() *tabula.Extractor {
					e := tabula.Open(path)
					if len(sel) > 0 {
						e = e.Pages(sel...)
					}
					return e
				}
				outs := map[string][2]string{}
				pm, _, e1 := sel2().ToMarkdown()
				fm, _, e2 := sel2().ExcludeHeadersAndFooters().ToMarkdown()
				if e1 != nil || e2 != nil {
					ok, why = false, fmt.Sprintf("ToMarkdown: %v %v", e1, e2)
				}
				outs["ToMarkdown"] = [2]string{pm, fm}
				docText := func(e *tabula.Extractor) (string, error) {
					d, _, err := e.Document()
					if err != nil || d == nil {
						return "", err
					}
					var b strings.Builder
					for _, pg := range d.Pages {
						b.WriteString(pg.ExtractText() + "\n")
					}
					return b.String(), nil
				}
				pd, e3 := docText(sel2())
				fd, e4 := docText(sel2().ExcludeHeadersAndFooters())
				if e3 != nil || e4 != nil {
					ok, why = false, fmt.Sprintf("Document: %v %v", e3, e4)
				}
				outs["Document"] = [2]string{pd, fd}
				chunkText := func(e *tabula.Extractor) (string, error) {
					cc, _, err := e.Chunks()
					if err != nil || cc == nil {
						return "", err
					}
					var b strings.Builder
					for _, c := range cc.Chunks {
						b.WriteString(c.Text + "\n")
					}
					return b.String(), nil
				}
				pc, e5 := chunkText(sel2())
				fc, e6 := chunkText(sel2().ExcludeHeadersAndFooters())
				if e5 != nil || e6 != nil {
					ok, why = false, fmt.Sprintf("Chunks: %v %v", e5, e6)
				}
				outs["Chunks"] = [2]string{pc, fc}
				for name, pf := range outs {
					if !ok {
						break
					}
					if strings.Count(pf[1], "Body line") != strings.Count(pf[0], "Body line") {
						ok, why = false, name+": a body line is missing after exclusion"
					}
					copies := 0
					for _, p := range selPages {
						if bodyCopies[p-1] {
							copies++
						}
					}
					if strings.Count(pf[1], "Running Title") < copies {
						ok, why = false, name+": a body line with the words of the running title is missing"
					}
					if !partial && strings.Contains(pf[1], "Running Title of the Book") && len(selPages) >= 2 {
						ok, why = false, name+": the running title is still there"
					}
				}
			}
			r.Check(ok, "api-exclusion", fmt.Sprintf("ExcludeHeadersAndFooters().Text() on pages %v (number style %q, title on %v): %s; err %v %v", sel, numStyle, hasTitle, why, e1, e2), Bs(path))
			os.Remove(path)
		}
	}
}
