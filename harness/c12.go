package main

import (
	"fmt"
	"strings"

	"github.com/tsawler/tabula/model"
	"github.com/tsawler/tabula/rag"
)

type c12el struct {
	kind    int // 0 heading, 1 paragraph, 2 list, 3 table, 4 image, 5 paragraph that the TOC names a heading
	level   int
	text    string
	ordered bool
	items   []model.ListItem
	cells   [][]string
	page    int
	anchors []string
}

type c12gen struct {
	rng *RNG
	n   int
}

func (g *c12gen) anchor() string {
	g.n++
	return fmt.Sprintf("q%dz", g.n)
}

// prose makes about n bytes of sentences; every sentence starts with a fresh anchor.
func (g *c12gen) prose(n int, anchors *[]string) string {
	var b strings.Builder
	words := []string{"alpha", "beta", "gamma", "delta", "epsilon", "zeta", "eta", "theta"}
	for b.Len() < n {
		a := g.anchor()
		*anchors = append(*anchors, a)
		b.WriteString("S" + a)
		for k := g.rng.Range(1, 8); k > 0; k-- {
			b.WriteString(" " + words[g.rng.Intn(len(words))])
		}
		b.WriteString(". ")
	}
	return strings.TrimSpace(b.String())
}

func nows(s string) string {
	return strings.Join(strings.Fields(s), "")
}

// openChain: the headings that still enclose the position after hs, by the
// declarative rule: a heading stays open until a later heading of the same or a
// smaller level number follows.
func openChain(hs [][2]interface{}) []string {
	var out []string
	for i, h := range hs {
		open := true
		for _, k := range hs[i+1:] {
			if k[0].(int) <= h[0].(int) {
				open = false
			}
		}
		if open {
			out = append(out, strings.TrimSpace(h[1].(string)))
		}
	}
	return out
}

func init() {
	props["C12"] = func(r *Run, rng *RNG) {
		thorough := r.Tier == "thorough"
		r.Rule = "(A) document models of 1..4 pages (own page numbers, some pages without elements) with 0..8 elements per page: headings of levels 1..6 in any order incl. skipped levels, paragraphs from one sentence to several times the maximum chunk size, ordered and unordered lists with items at levels 0..2, 1..3 x 1..3 tables, images with and without a description, paragraphs that a layout table of contents names as headings; size limits 60..600 characters or 20..150 tokens at ratios 1/4 and 1/2, through rag.ChunkDocumentWithConfig; (B) layout documents of 1..5 pages (some without layout) with 0..3 headings of levels 1..6, 0..4 paragraphs and 0..2 lists per page, MinHeadingLevel 1..4, maximum chunk sizes 80..2000, list coherence on and off, through rag.Chunker. non-trivial = at least 5 elements"
		g := &c12gen{rng: rng}
		n := 150
		if thorough {
			n = 4000
		}
		mkCfg := func(unit rag.SizeUnit, maxv int, p, q int) rag.SizeConfig {
			c := rag.DefaultSizeConfig()
			c.Max = rag.SizeLimit{Value: maxv, Unit: unit, Type: rag.LimitTypeHard}
			c.TokensPerChar = float64(p) / float64(q)
			return c
		}
		// ---------- (A) the document chunker
		for it := 0; it < n; it++ {
			unit, maxv, p, q := rag.SizeUnitCharacters, rng.Range(60, 600), 1, 4
			if rng.Chance(1, 3) {
				unit, maxv = rag.SizeUnitTokens, rng.Range(20, 150)
				if rng.Bool() {
					q = 2
				}
			}
			cfgV := L(I(0), I(maxv), I(p), I(q))
			if unit == rag.SizeUnitTokens {
				cfgV = L(I(1), I(maxv), I(p), I(q))
			}
			maxBytes := maxv
			if unit == rag.SizeUnitTokens {
				maxBytes = maxv * q / p
			}
			doc := model.NewDocument()
			np := rng.Range(1, 4)
			pnum := 0
			var els []c12el
			pagesV, tocV := VL{}, VL{}
			type oldHead struct {
				text  string
				level int
				page  int
			}
			var oldHeads []oldHead // layout headings of earlier pages: their words may come back at another level
			for pi := 0; pi < np; pi++ {
				pnum += rng.Range(1, 3)
				page := model.NewPage(612, 792)
				page.Number = pnum
				ev := VL{}
				ne := rng.Range(0, 8)
				if rng.Chance(1, 8) {
					ne = 0
				}
				var layoutHeads []model.HeadingInfo
				for e := 0; e < ne; e++ {
					el := c12el{page: pnum}
					switch rng.Intn(10) {
					case 0, 1:
						el.kind, el.level = 0, rng.Range(1, 6)
						a := g.anchor()
						el.anchors = []string{a}
						el.text = "Head " + a
						if rng.Chance(1, 5) {
							el.text = "  " + el.text + " "
						}
						page.AddElement(&model.Heading{Level: el.level, Text: el.text})
						ev = append(ev, L(I(0), I(el.level), Bs(el.text)))
					case 2, 3, 4, 5:
						el.kind = 1
						size := rng.Range(10, 80)
						if rng.Chance(1, 3) {
							size = maxBytes * rng.Range(1, 4)
						}
						el.text = g.prose(size, &el.anchors)
						if rng.Chance(1, 10) {
							el.text, el.anchors = "", nil
						}
						page.AddElement(&model.Paragraph{Text: el.text})
						ev = append(ev, L(I(1), Bs(el.text)))
					case 6:
						el.kind, el.ordered = 2, rng.Bool()
						iv := VL{}
						lvl := 0
						for k := rng.Range(1, 5); k > 0; k-- {
							a := g.anchor()
							el.anchors = append(el.anchors, a)
							t := "item " + a
							el.items = append(el.items, model.ListItem{Text: t, Level: lvl})
							iv = append(iv, L(I(lvl), Bs(t)))
							switch rng.Intn(3) {
							case 0:
								if lvl < 2 {
									lvl++
								}
							case 1:
								lvl = rng.Intn(lvl + 1)
							}
						}
						page.AddElement(&model.List{Ordered: el.ordered, Items: el.items})
						ev = append(ev, L(I(2), Bool(el.ordered), iv))
					case 7:
						el.kind = 3
						nr, nc := rng.Range(1, 4), rng.Range(1, 3)
						t := model.NewTable(nr, nc)
						for i := 0; i < nr; i++ {
							var row []string
							for j := 0; j < nc; j++ {
								a := g.anchor()
								el.anchors = append(el.anchors, a)
								t.SetCell(i, j, model.Cell{Text: "cell " + a, RowSpan: 1, ColSpan: 1})
								row = append(row, "cell "+a)
							}
							// a ragged table: a body row with more cells than the header row
							if i > 0 && rng.Chance(1, 3) {
								a := g.anchor()
								el.anchors = append(el.anchors, a)
								t.Rows[i] = append(t.Rows[i], model.Cell{Text: "cell " + a, RowSpan: 1, ColSpan: 1})
								row = append(row, "cell "+a)
							}
							el.cells = append(el.cells, row)
						}
						page.AddElement(t)
						ev = append(ev, L(I(3), Bs(t.ToMarkdown())))
					case 8:
						el.kind = 4
						if rng.Chance(2, 3) {
							a := g.anchor()
							el.anchors = []string{a}
							el.text = "picture " + a
						}
						page.AddElement(&model.Image{AltText: el.text})
						ev = append(ev, L(I(4), Bs(el.text)))
					case 9:
						// a paragraph the layout analysis found to be a heading
						el.kind, el.level = 5, rng.Range(1, 6)
						a := g.anchor()
						el.anchors = []string{a}
						el.text = "Layout head " + a
						if it%3 == 0 {
							// headings without a token of their own, so that their words can come back on a later
							// page at another level (at most once per page)
							if len(oldHeads) == 0 {
								el.text, el.anchors = "Summary of the part", nil
								oldHeads = append(oldHeads, oldHead{el.text, el.level, pnum})
							} else if oldHeads[len(oldHeads)-1].page != pnum {
								el.text, el.anchors = oldHeads[0].text, nil
								el.level = oldHeads[len(oldHeads)-1].level%6 + 1
								oldHeads = append(oldHeads, oldHead{el.text, el.level, pnum})
							}
						}
						tocText := el.text
						if rng.Chance(1, 3) {
							tocText = " " + el.text + "  "
						}
						layoutHeads = append(layoutHeads, model.HeadingInfo{Level: el.level, Text: tocText})
						tocV = append(tocV, L(I(el.level), Bs(tocText), I(pnum)))
						page.AddElement(&model.Paragraph{Text: el.text})
						ev = append(ev, L(I(1), Bs(el.text)))
					}
					els = append(els, el)
				}
				if len(layoutHeads) > 0 {
					page.Layout = &model.PageLayout{Headings: layoutHeads}
				}
				doc.Pages = append(doc.Pages, page)
				pagesV = append(pagesV, L(I(pnum), ev))
			}
			cc := rag.ChunkDocumentWithConfig(doc, rag.DefaultChunkerConfig(), mkCfg(unit, maxv, p, q))
			cv := L(I(0), cfgV, tocV, pagesV)
			out := VL{}
			for _, c := range cc.Chunks {
				kind := 0
				if len(c.Metadata.ElementTypes) > 0 {
					switch c.Metadata.ElementTypes[0] {
					case "heading":
						kind = 1
					case "list":
						kind = 2
					case "table":
						kind = 3
					case "image":
						kind = 4
					}
				}
				out = append(out, L(I(c.Metadata.ChunkIndex), I(c.Metadata.TotalChunks), Bs(c.Text), bsList(c.Metadata.SectionPath), I(c.Metadata.PageStart), I(c.Metadata.HeadingLevel), I(kind)))
			}
			r.Case(cv, out, "document-chunker", len(els) >= 5)
			c12Predicates(r, cv, "doc", cc.Chunks, "chunk-%d")
			// coverage and order: every anchor once, in order
			var anchors []string
			for _, e := range els {
				anchors = append(anchors, e.anchors...)
			}
			var texts []string
			for _, c := range cc.Chunks {
				texts = append(texts, c.Text)
			}
			ok, why := inOrder(strings.Join(texts, "\n"), anchors)
			r.Check(ok, "coverage:doc", why, cv)
			// pages and section paths, per chunk, from the element that owns its first anchor
			owner := map[string]int{}
			for i, e := range els {
				for _, a := range e.anchors {
					owner[a] = i
				}
			}
			for _, c := range cc.Chunks {
				as := anchorsOf(c.Text)
				if len(as) == 0 {
					continue
				}
				okP := c.Metadata.PageStart == c.Metadata.PageEnd
				for _, a := range as {
					if i, ok := owner[a]; ok && els[i].page != c.Metadata.PageStart {
						okP = false
					}
				}
				r.Check(okP, "page-range:doc", fmt.Sprintf("chunk %d reports pages %d-%d but holds content of other pages", c.Metadata.ChunkIndex, c.Metadata.PageStart, c.Metadata.PageEnd), cv)
				// the path of a text chunk is taken at its last paragraph; all its paragraphs lie
				// between the same two headings, so any of its anchors gives the same chain
				i := owner[as[0]]
				var hs [][2]interface{}
				for j := 0; j <= i; j++ {
					if els[j].kind == 0 || els[j].kind == 5 {
						hs = append(hs, [2]interface{}{els[j].level, els[j].text})
					}
				}
				want := openChain(hs)
				r.Check(strings.Join(c.Metadata.SectionPath, "\x00") == strings.Join(want, "\x00"), "section-path:doc", fmt.Sprintf("chunk %d has section path %q, enclosing headings are %q", c.Metadata.ChunkIndex, c.Metadata.SectionPath, want), cv)
			}
		}
		// ---------- (B) the section chunker
		// after the random documents: heading ladders (1 > 2 > 3 > 4, 4 > 5, 5 > 6, 6, one heading and its text per page)
		// with every level a section of its own, from a generator state of their own
		drng := NewRNG(0xC12D)
		outerRng := rng
		for it := 0; it < n+n/5+6; it++ {
			rng := outerRng
			var ladder []int
			introList := false // a list introduction as the last paragraph of a page, the (long) list alone on the next page
			if it >= n {
				rng = drng
				if (it-n)%2 == 0 {
					ladder = []int{1, 2, 3, 4, 4, 5, 5, 6, 6}[:rng.Range(5, 9)]
				} else {
					introList = true
				}
			}
			g.rng = rng
			cfg := rag.DefaultChunkerConfig()
			cfg.MinHeadingLevel = rng.Range(1, 4)
			if ladder != nil {
				cfg.MinHeadingLevel = rng.Range(4, 6)
			}
			cfg.MaxChunkSize = []int{80, 150, 400, 2000}[rng.Intn(4)]
			cfg.MinChunkSize = []int{0, 10, 40, 100}[rng.Intn(4)]
			cfg.TargetChunkSize = cfg.MaxChunkSize / 2
			cfg.PreserveListCoherence = rng.Bool()
			if rng.Bool() {
				cfg.IDPrefix = "part"
			}
			doc := model.NewDocument()
			np := rng.Range(1, 5)
			if ladder != nil {
				np = len(ladder)
			}
			if introList {
				np = 2 * rng.Range(1, 2)
			}
			pv := VL{}
			type item struct {
				anchors []string
				page    int
				major   bool
				level   int
				text    string
			}
			var items []item // in the order the chunker defines: per page headings, paragraphs, lists
			total := 0
			for pi := 0; pi < np; pi++ {
				page := model.NewPage(612, 792)
				page.Number = pi + 1
				if ladder == nil && !introList && rng.Chance(1, 8) {
					doc.Pages = append(doc.Pages, page)
					pv = append(pv, L(I(0), L(), L(), L()))
					continue
				}
				lay := &model.PageLayout{}
				hv, parv, lv := VL{}, VL{}, VL{}
				hk := rng.Intn(4)
				if ladder != nil {
					hk = 1
				}
				if introList {
					hk = (pi + 1) % 2 // a heading on the pages with the introduction, none on the pages of the list
				}
				for k := hk; k > 0; k-- {
					a := g.anchor()
					lvl := rng.Range(1, 6)
					if ladder != nil {
						lvl = ladder[pi]
					}
					t := "Head " + a
					lay.Headings = append(lay.Headings, model.HeadingInfo{Level: lvl, Text: t})
					hv = append(hv, L(I(lvl), Bs(t)))
					items = append(items, item{anchors: []string{a}, page: pi + 1, major: lvl <= cfg.MinHeadingLevel, level: lvl, text: t})
				}
				pk := rng.Intn(5)
				if ladder != nil && pk == 0 {
					pk = 1
				}
				if introList {
					pk = ((pi + 1) % 2) * rng.Range(1, 3)
				}
				for k := pk; k > 0; k-- {
					var as []string
					size := rng.Range(10, 90)
					if rng.Chance(1, 4) {
						size = cfg.MaxChunkSize * rng.Range(1, 3)
					}
					t := g.prose(size, &as)
					if rng.Chance(1, 6) || introList && k == 1 {
						as = as[:1]
						t = "The following items apply: S" + as[0] + ":"
					}
					lay.Paragraphs = append(lay.Paragraphs, model.ParagraphInfo{Text: t})
					parv = append(parv, Bs(t))
					items = append(items, item{anchors: as, page: pi + 1, level: 99})
				}
				lk := rng.Intn(3)
				if introList {
					lk = pi % 2
				}
				for k := lk; k > 0; k-- {
					var li model.ListInfo
					var as []string
					var lines []string
					for j := rng.Range(1, 4); j > 0; j-- {
						lvl := rng.Intn(2)
						var t string
						if rng.Chance(1, 6) || introList && rng.Bool() {
							t = g.prose(cfg.MaxChunkSize, &as)
						} else {
							a := g.anchor()
							as = append(as, a)
							t = "item " + a
							// an item that reads like the introduction of a list
							switch rng.Intn(8) {
							case 0:
								t += " with the following:"
							case 1:
								t += " has these options"
							case 2:
								t += " lists the items"
							}
						}
						li.Items = append(li.Items, model.ListItem{Text: t, Level: lvl})
						lines = append(lines, strings.Repeat("  ", lvl)+"- "+t)
					}
					lay.Lists = append(lay.Lists, li)
					lv = append(lv, Bs(strings.Join(lines, "\n")))
					items = append(items, item{anchors: as, page: pi + 1, level: 99})
				}
				page.Layout = lay
				doc.Pages = append(doc.Pages, page)
				pv = append(pv, L(I(1), hv, parv, lv))
				total += len(hv) + len(parv) + len(lv)
			}
			cv := L(I(1), I(cfg.MinHeadingLevel), pv)
			ch := rag.NewChunkerWithConfig(cfg)
			secs := rag.VerifSections(ch, doc)
			sv := VL{}
			for _, s := range secs {
				cont := VL{}
				for _, c := range s.Content {
					k := 0
					switch c.Type {
					case model.ElementTypeList:
						k = 1
					case model.ElementTypeHeading:
						k = 2
					}
					cont = append(cont, L(I(k), Bs(c.Text), I(c.Page)))
				}
				sv = append(sv, L(Bs(s.Title), I(s.HeadingLevel), bsList(s.Path), cont, I(s.PageStart), I(s.PageEnd)))
			}
			r.Case(cv, sv, "sections", total >= 5)
			res, err := ch.Chunk(doc)
			if err != nil {
				r.Check(false, "chunker-error", err.Error(), cv)
				continue
			}
			c12Predicates(r, cv, "sections", res.Chunks, cfg.IDPrefix+"_%d")
			var texts []string
			for _, c := range res.Chunks {
				texts = append(texts, c.Text)
			}
			joined := strings.Join(texts, "\n")
			var contentAnchors, majorAnchors []string
			for _, x := range items {
				if x.major {
					majorAnchors = append(majorAnchors, x.anchors...)
				} else {
					contentAnchors = append(contentAnchors, x.anchors...)
				}
			}
			ok, why := inOrder(joined, contentAnchors)
			r.Check(ok, "coverage:sections", why, cv)
			missing := ""
			for _, a := range majorAnchors {
				if !strings.Contains(joined, a) {
					missing = a
					break
				}
			}
			r.Check(missing == "", "chunker-heading-not-in-text", "the text of a section heading ("+missing+") is in no chunk text of the section chunker (it is only carried as SectionTitle)", cv)
			// section path and page range per chunk
			owner := map[string]int{}
			for i, x := range items {
				for _, a := range x.anchors {
					owner[a] = i
				}
			}
			for _, c := range res.Chunks {
				as := anchorsOf(c.Text)
				if len(as) == 0 {
					continue
				}
				i := owner[as[0]]
				var hs [][2]interface{}
				headPage := 0
				for j := 0; j <= i; j++ {
					if items[j].major {
						hs = append(hs, [2]interface{}{items[j].level, items[j].text})
						headPage = items[j].page
					}
				}
				var want []string
				for i, h := range hs {
					open := true
					for _, k := range hs[i+1:] {
						if k[0].(int) <= h[0].(int) {
							open = false
						}
					}
					if open {
						want = append(want, h[1].(string))
					}
				}
				r.Check(strings.Join(c.Metadata.SectionPath, "\x00") == strings.Join(want, "\x00"), "section-path:sections", fmt.Sprintf("chunk %d has section path %q, enclosing headings are %q", c.Metadata.ChunkIndex, c.Metadata.SectionPath, want), cv)
				lo, hi := 1<<30, 0
				for _, a := range as {
					if k, ok := owner[a]; ok {
						if items[k].page < lo {
							lo = items[k].page
						}
						if items[k].page > hi {
							hi = items[k].page
						}
					}
				}
				okP := c.Metadata.PageEnd == hi && (c.Metadata.PageStart == lo || (c.Metadata.PageStart == headPage && headPage <= lo && headPage > 0))
				r.Check(okP, "page-range:sections", fmt.Sprintf("chunk %d reports pages %d-%d, its content comes from pages %d-%d (heading on %d)", c.Metadata.ChunkIndex, c.Metadata.PageStart, c.Metadata.PageEnd, lo, hi, headPage), cv)
			}
		}
	}
}

// c12Predicates: indices, totals and identifiers.
func c12Predicates(r *Run, cv V, name string, chunks []*rag.Chunk, idFmt string) {
	ids := map[string]bool{}
	ok, why := true, ""
	for i, c := range chunks {
		if c.Metadata.ChunkIndex != i {
			ok, why = false, fmt.Sprintf("chunk at position %d has index %d", i, c.Metadata.ChunkIndex)
		}
		if c.Metadata.TotalChunks != len(chunks) {
			ok, why = false, fmt.Sprintf("chunk %d reports %d chunks of %d", i, c.Metadata.TotalChunks, len(chunks))
		}
		if ids[c.ID] {
			ok, why = false, "identifier "+c.ID+" is used twice"
		}
		ids[c.ID] = true
		if c.ID != fmt.Sprintf(idFmt, i) {
			ok, why = false, fmt.Sprintf("chunk %d has identifier %s", i, c.ID)
		}
		if c.Metadata.PageStart > c.Metadata.PageEnd {
			ok, why = false, fmt.Sprintf("chunk %d has page range %d-%d", i, c.Metadata.PageStart, c.Metadata.PageEnd)
		}
	}
	r.Check(ok, "index-total-id:"+name, why, cv)
}
