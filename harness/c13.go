package main

import (
	"fmt"
	"strings"
	"time"
	"unicode"
	"unicode/utf8"

	"github.com/tsawler/tabula/rag"
)

func nonWS(s string) string {
	var b strings.Builder
	for _, r := range s {
		if !unicode.IsSpace(r) {
			b.WriteRune(r)
		}
	}
	return b.String()
}

var c13Words = []string{"the", "quick", "brown", "fox", "jumps", "over", "a", "lazy", "dog", "Dr.", "e.g.", "naïve", "café", "Zürich", "data", "analysis", "results", "3.14", "x"}
var c13CJK = []string{"あ", "い", "漢", "字", "語", "。", "、", "한", "글", "中", "文", "全", "公", "共", "入", "報", "à", "…", "堂"}
var c13Emoji = []string{"😀", "👩‍👩‍👧", "🇩🇪", "é", "ạ̈", "👍🏽"}

func c13Text(rng *RNG, kind int, n int) string {
	var b strings.Builder
	switch kind {
	case 0: // ASCII prose
		capNext := true
		for b.Len() < n {
			w := c13Words[rng.Intn(len(c13Words))]
			if capNext && w[0] >= 'a' && w[0] <= 'z' {
				w = strings.ToUpper(w[:1]) + w[1:]
			}
			capNext = false
			b.WriteString(w)
			switch rng.Intn(12) {
			case 0:
				b.WriteString(". ")
				capNext = rng.Chance(4, 5)
			case 1:
				b.WriteString("! ")
				capNext = true
			case 2:
				b.WriteString("?\n")
				capNext = true
			case 3:
				b.WriteString("\n\n")
				capNext = true
			case 4:
				b.WriteString(",  ")
			default:
				b.WriteString(" ")
			}
		}
	case 1: // CJK without spaces or ASCII punctuation
		for b.Len() < n {
			b.WriteString(c13CJK[rng.Intn(len(c13CJK))])
		}
	case 2: // emoji / combining
		for b.Len() < n {
			b.WriteString(c13Emoji[rng.Intn(len(c13Emoji))])
			if rng.Chance(1, 6) {
				b.WriteString(" ")
			}
		}
	case 3: // very long tokens
		for b.Len() < n {
			b.WriteString(strings.Repeat("x", rng.Range(30, 400)))
			if rng.Chance(1, 2) {
				b.WriteString(" ")
			}
		}
	case 4: // only whitespace (incl. non-ASCII)
		ws := []string{" ", "\n", "\t", " ", " ", "　", "\r"}
		for b.Len() < n {
			b.WriteString(ws[rng.Intn(len(ws))])
		}
	case 5: // mixed prose with multi-byte words, NBSP and sentence ends far apart
		for b.Len() < n {
			switch rng.Intn(8) {
			case 0:
				b.WriteString(c13CJK[rng.Intn(len(c13CJK))])
			case 1:
				b.WriteString(" ")
			case 2:
				b.WriteString("à")
			case 3:
				b.WriteString(". ")
			default:
				b.WriteString(c13Words[rng.Intn(len(c13Words))] + " ")
			}
		}
	case 6: // spaced: a space at least every 50 bytes, sentence ends sparse
		col := 0
		for b.Len() < n {
			w := strings.Repeat("w", rng.Range(1, 40))
			if rng.Chance(1, 5) {
				w = strings.Repeat("é", rng.Range(1, 20))
			}
			if col+len(w) >= 49 {
				b.WriteString(" ")
				col = 0
			}
			b.WriteString(w)
			col += len(w)
			if rng.Chance(1, 30) {
				b.WriteString(".")
				col++
			}
			if col >= 40 || rng.Chance(1, 3) {
				if rng.Chance(1, 8) {
					b.WriteString("\n")
				} else {
					b.WriteString(" ")
				}
				col = 0
			}
		}
	}
	return b.String()
}

func spacedEvery50(s string) bool {
	last := -1
	for i := 0; i < len(s); i++ {
		if s[i] == ' ' || s[i] == '\n' {
			last = i
		}
		if i-last >= 50 {
			return false
		}
	}
	return true
}

func c13Split(cfg rag.SizeConfig, text string) (pieces []string, ok bool) {
	done := make(chan []string, 1)
	go func() {
		defer func() {
			if r := recover(); r != nil {
				done <- nil
			}
		}()
		done <- rag.NewSizeCalculatorWithConfig(cfg).SplitToSize(text, nil)
	}()
	select {
	case p := <-done:
		return p, true
	case <-time.After(5 * time.Second):
		return nil, false
	}
}

// c13Oracle is the sentence-end oracle handed to the model: for the text and for every overlap the
// implementation can take before truncation, one byte per rune (1 = splitIntoSentencesWithPositions ends a sentence there).
func c13Oracle(cfg rag.OverlapConfig, texts ...string) VL {
	seen := map[string]bool{}
	tbl := VL{}
	add := func(t string) {
		if seen[t] {
			return
		}
		seen[t] = true
		ends := rag.VerifSentenceEnds(t)
		bits := make([]byte, len(ends))
		for i, e := range ends {
			if e {
				bits[i] = 1
			}
		}
		tbl = append(tbl, L(Bs(t), VB(bits)))
	}
	for _, t := range texts {
		add(t)
		// the overlap before truncation and before the minimum is applied, by the strategy itself and by the character fallback
		for _, st := range []rag.OverlapStrategy{cfg.Strategy, rag.OverlapCharacter} {
			c := cfg
			c.Strategy, c.MinOverlap, c.MaxOverlap = st, 0, 1<<40
			add(rag.NewOverlapGeneratorWithConfig(c).GenerateOverlap(t).Text)
		}
	}
	return tbl
}

func c13OverlapCase(cfg rag.OverlapConfig, text string) V {
	pw := 0
	if cfg.PreserveWords {
		pw = 1
	}
	return L(I(2), I(int(cfg.Strategy)), I(cfg.Size), I(cfg.MinOverlap), I(cfg.MaxOverlap), I(pw), Bs(text), c13Oracle(cfg, text))
}

func init() {
	props["C13"] = func(r *Run, rng *RNG) {
		thorough := r.Tier == "thorough"
		r.Rule = "texts: ASCII prose, CJK without spaces, emoji/combining sequences, very long tokens, whitespace only (incl. non-ASCII), mixed with NBSP, texts with a space at least every 50 bytes; every size unit; limits 1..4000; token ratios 1/4, 1/2, 1/8; all texts of length<=5(6) over {a, space, '.', 0xE3 0x81 0x82, newline}; model compared for character and token limits (the other units are checked by the property predicates on the implementation only); overlap generation for every strategy. non-trivial = more than one piece"
		mk := func(unit rag.SizeUnit, maxv int, p, q int) rag.SizeConfig {
			c := rag.DefaultSizeConfig()
			c.Max = rag.SizeLimit{Value: maxv, Unit: unit, Type: rag.LimitTypeHard}
			c.TokensPerChar = float64(p) / float64(q)
			return c
		}
		hung := 0
		run := func(text string, unit rag.SizeUnit, maxv, p, q int, tag string) {
			if hung >= 3 {
				// calls that never return keep their cores: after three of them the rest of the cases would only crawl
				return
			}
			cfg := mk(unit, maxv, p, q)
			pieces, ok := c13Split(cfg, text)
			cv := L(I(0), I(int(unit)), I(maxv), I(p), I(q), Bs(text))
			if !ok {
				hung++
				r.Check(false, "split-hang", fmt.Sprintf("SplitToSize did not return within 5s (unit %v max %d)", unit, maxv), cv)
				return
			}
			if unit == rag.SizeUnitCharacters || unit == rag.SizeUnitTokens {
				var pv VL = VL{}
				for _, s := range pieces {
					pv = append(pv, Bs(s))
				}
				if pieces == nil && len(text) > 0 && ok {
					// nil from recover() is indistinguishable from an empty result; rerun without recover is not needed:
				}
				r.Case(cv, ROk(pv), tag, len(pieces) > 1)
			}
			// (b) property predicates
			r.Check(nonWS(strings.Join(pieces, "")) == nonWS(text), "split-conservation", fmt.Sprintf("non-whitespace characters changed (unit %v max %d)", unit, maxv), cv)
			if utf8.ValidString(text) {
				okU := true
				for _, s := range pieces {
					if !utf8.ValidString(s) {
						okU = false
					}
				}
				r.Check(okU, "split-utf8", fmt.Sprintf("a piece is not valid UTF-8 (unit %v max %d)", unit, maxv), cv)
			}
			// the bound is claimed for limits of at least 200 characters (a token limit: 200 characters' worth; the
			// token ratio p/q says nothing about a limit given in characters)
			if ((unit == rag.SizeUnitCharacters && maxv >= 200) || (unit == rag.SizeUnitTokens && maxv*q/p >= 200)) && spacedEvery50(text) {
				okB := true
				calc := rag.NewSizeCalculatorWithConfig(cfg)
				for _, s := range pieces {
					if calc.GetSize(s, unit) > maxv {
						okB = false
					}
				}
				r.Check(okB, "split-bound", fmt.Sprintf("a piece exceeds the hard maximum %d %v", maxv, unit), cv)
			}
		}
		// exhaustive short texts
		alpha := []string{"a", " ", ".", "\xe3\x81\x82", "\n"}
		maxLen := 5
		if thorough {
			maxLen = 6
		}
		var rec func(cur string, n int)
		rec = func(cur string, n int) {
			for _, mx := range []int{1, 2, 3, 5} {
				run(cur, rag.SizeUnitCharacters, mx, 1, 4, "exhaustive")
			}
			if n == maxLen {
				return
			}
			for _, a := range alpha {
				rec(cur+a, n+1)
			}
		}
		rec("", 0)
		r.Exhaustive = false
		n := 400
		if thorough {
			n = 20000
		}
		units := []rag.SizeUnit{rag.SizeUnitCharacters, rag.SizeUnitTokens, rag.SizeUnitWords, rag.SizeUnitSentences, rag.SizeUnitParagraphs}
		ratios := [][2]int{{1, 4}, {1, 2}, {1, 8}, {1, 1}}
		for i := 0; i < n; i++ {
			kind := i % 7
			text := c13Text(rng, kind, rng.Range(0, 1200))
			unit := units[rng.Intn(len(units))]
			rt := ratios[rng.Intn(len(ratios))]
			var maxv int
			switch rng.Intn(4) {
			case 0:
				maxv = rng.Range(1, 12)
			case 1:
				maxv = rng.Range(13, 199)
			default:
				maxv = rng.Range(200, 1000)
			}
			if unit == rag.SizeUnitTokens && rng.Bool() {
				maxv = rng.Range(200, 600) * rt[0] / rt[1]
				if maxv < 1 {
					maxv = 1
				}
			}
			run(text, unit, maxv, rt[0], rt[1], fmt.Sprintf("random:k%d", kind))
		}
		// sentence end just beyond the limit (forward search), limit exactly at a '.', trailing blank
		for _, mx := range []int{200, 250} {
			base := strings.Repeat("word ", 39) // 195 bytes
			run(base+"abcdefghijklmnopqrstuvwxyz abcdefghij. tail "+base+base, rag.SizeUnitCharacters, mx, 1, 4, "crafted")
			run(strings.Repeat("x", mx)+". "+base, rag.SizeUnitCharacters, mx, 1, 4, "crafted")
			run(strings.Repeat("x", mx)+" ", rag.SizeUnitCharacters, mx, 1, 4, "crafted")
			run(" "+strings.Repeat("x", mx), rag.SizeUnitCharacters, mx, 1, 4, "crafted")
			run(strings.Repeat("あ", 1000), rag.SizeUnitCharacters, mx, 1, 4, "crafted")
			run(strings.Repeat("あ", 1000), rag.SizeUnitTokens, mx/4, 1, 4, "crafted")
		}
		// TrimSpace model sanity
		for i := 0; i < 200; i++ {
			t := c13Text(rng, 4, rng.Intn(6)) + c13Text(rng, rng.Intn(3), rng.Intn(8)) + c13Text(rng, 4, rng.Intn(6))
			r.Case(L(I(1), Bs(t)), Bs(strings.TrimSpace(t)), "trimspace", false)
		}
		// ---- overlap
		strategies := []rag.OverlapStrategy{rag.OverlapCharacter, rag.OverlapSentence, rag.OverlapParagraph}
		no := 300
		if thorough {
			no = 10000
		}
		for i := 0; i < no; i++ {
			text := strings.TrimSpace(c13Text(rng, []int{0, 0, 1, 2, 5, 6}[rng.Intn(6)], rng.Range(1, 1500)))
			if text == "" {
				continue
			}
			cfg := rag.OverlapConfig{Strategy: strategies[rng.Intn(3)], PreserveWords: rng.Bool()}
			if cfg.Strategy == rag.OverlapCharacter {
				cfg.Size = rng.Range(1, 300)
			} else {
				cfg.Size = rng.Range(1, 4)
			}
			cfg.MinOverlap = []int{0, 10, 20}[rng.Intn(3)]
			cfg.MaxOverlap = []int{50, 200, 500, 100000}[rng.Intn(4)]
			res := rag.NewOverlapGeneratorWithConfig(cfg).GenerateOverlap(text)
			o := res.Text
			cv := c13OverlapCase(cfg, text)
			sname := cfg.Strategy.String()
			r.Case(cv, Bs(o), "overlap:"+sname, o != "" && o != text)
			if o == "" {
				continue
			}
			r.Check(utf8.ValidString(o), "overlap-utf8:"+sname, "overlap is not valid UTF-8", cv)
			r.Check(strings.HasSuffix(nonWS(text), nonWS(o)), "overlap-suffix:"+sname, "overlap is not a suffix of the chunk's own content", cv)
			r.Check(len(o) <= cfg.MaxOverlap, "overlap-max:"+sname, fmt.Sprintf("overlap of %d bytes exceeds MaxOverlap %d", len(o), cfg.MaxOverlap), cv)
			r.Check(len(o) >= cfg.MinOverlap, "overlap-min:"+sname, fmt.Sprintf("non-empty overlap of %d bytes is below MinOverlap %d", len(o), cfg.MinOverlap), cv)
		}
		// truncation exactly at the MaxOverlap boundary: sentences of known lengths, MaxOverlap around
		// the length of the last k sentences joined by single blanks
		for i := 0; i < no/3; i++ {
			ns := rng.Range(3, 7)
			var sents []string
			for j := 0; j < ns; j++ {
				sents = append(sents, string(rune('A'+j))+strings.Repeat(string(rune('a'+j)), rng.Range(3, 30))+".")
			}
			text := strings.Join(sents, " ")
			k := rng.Range(1, ns-1)
			sum := k - 1
			for _, t := range sents[ns-k:] {
				sum += len(t)
			}
			for d := -3; d <= 2; d++ {
				for _, st := range []rag.OverlapStrategy{rag.OverlapSentence, rag.OverlapParagraph} {
					cfg := rag.OverlapConfig{Strategy: st, Size: ns, MinOverlap: 0, MaxOverlap: sum + d, PreserveWords: true}
					if st == rag.OverlapParagraph {
						cfg.Size = 1
					}
					if cfg.MaxOverlap < 1 {
						continue
					}
					o := rag.NewOverlapGeneratorWithConfig(cfg).GenerateOverlap(text).Text
					cv := c13OverlapCase(cfg, text)
					r.Case(cv, Bs(o), "overlap-boundary:"+st.String(), o != "")
					r.Check(len(o) <= cfg.MaxOverlap, "overlap-max:"+st.String(), fmt.Sprintf("overlap of %d bytes exceeds MaxOverlap %d", len(o), cfg.MaxOverlap), cv)
					r.Check(strings.HasSuffix(nonWS(text), nonWS(o)), "overlap-suffix:"+st.String(), "overlap is not a suffix of the chunk's own content", cv)
					r.Check(utf8.ValidString(o), "overlap-utf8:"+st.String(), "overlap is not valid UTF-8", cv)
				}
			}
		}
		// overlap across a chunk sequence: the overlap given to chunk i+1 comes from chunk i's own text
		for i := 0; i < no/10; i++ {
			var chunks []*rag.Chunk
			var orig []string
			k := rng.Range(2, 5)
			for j := 0; j < k; j++ {
				t := strings.TrimSpace(c13Text(rng, 0, rng.Range(5, 120)))
				if t == "" {
					t = "x."
				}
				orig = append(orig, t)
				chunks = append(chunks, &rag.Chunk{ID: fmt.Sprintf("c%d", j), Text: t})
			}
			cfg := rag.OverlapConfig{Strategy: strategies[rng.Intn(3)], Size: rng.Range(1, 3), MinOverlap: 0, MaxOverlap: 100000, PreserveWords: true}
			if cfg.Strategy == rag.OverlapCharacter {
				cfg.Size = rng.Range(5, 200)
			}
			chainIn := L(I(3), I(int(cfg.Strategy)), I(cfg.Size), I(cfg.MinOverlap), I(cfg.MaxOverlap), I(1), func() VL {
				v := VL{}
				for _, t := range orig {
					v = append(v, Bs(t))
				}
				return v
			}(), c13Oracle(cfg, orig...))
			out := rag.ApplyOverlapToChunks(chunks, cfg)
			chainOut := VL{}
			for _, c := range out {
				chainOut = append(chainOut, L(Bs(c.OverlapPrefix), Bs(c.Chunk.Text)))
			}
			r.Case(chainIn, chainOut, "overlap-chain:"+cfg.Strategy.String(), true)
			okS := true
			for j := 1; j < len(out); j++ {
				if out[j].HasOverlapPrefix && !strings.HasSuffix(nonWS(orig[j-1]), nonWS(out[j].OverlapPrefix)) {
					okS = false
				}
			}
			var ov VL = VL{}
			for _, t := range orig {
				ov = append(ov, Bs(t))
			}
			r.Check(okS, "overlap-chain:"+cfg.Strategy.String(), "overlap prefix is not a suffix of the previous chunk's own (pre-overlap) content", L(I(3), I(int(cfg.Strategy)), I(cfg.Size), ov))
		}
	}
}
