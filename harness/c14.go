package main

import (
	"bytes"
	"encoding/json"
	"fmt"
	"os"
	"reflect"
	"sort"
	"strings"

	"github.com/tsawler/tabula/rag"
)

var c14Nasty = []string{"plain", "a,b", "tab\there", "say \"hi\"", "line1\nline2", "cr\rlf", "crlf\r\nend", "nul\x00byte", "emoji 😀", "{\"json\": [1,2]}", " leading space", "trailing space ", "\\.", " nbsp first", "", "ünïcödé", "semi;colon|pipe", "'single'", "[a,b]", "\"", "\"\"", ",", "\n", "x\"y\"z,\n", "<tag>&amp;"}

func c14Str(rng *RNG) string {
	if rng.Chance(1, 3) {
		return c14Nasty[rng.Intn(len(c14Nasty))] + c14Nasty[rng.Intn(len(c14Nasty))]
	}
	return c14Nasty[rng.Intn(len(c14Nasty))]
}

func c14Chunk(rng *RNG, i int) *rag.Chunk {
	levels := []rag.ChunkLevel{rag.ChunkLevelDocument, rag.ChunkLevelSection, rag.ChunkLevelParagraph, rag.ChunkLevelSentence}
	c := &rag.Chunk{ID: fmt.Sprintf("id%d%s", i, []string{"", ",x", "\"q\"", " sp"}[rng.Intn(4)]), Text: c14Str(rng)}
	m := &c.Metadata
	if rng.Bool() {
		m.DocumentTitle = c14Str(rng)
	}
	if rng.Bool() {
		n := rng.Range(1, 3)
		for j := 0; j < n; j++ {
			m.SectionPath = append(m.SectionPath, c14Str(rng))
		}
	}
	if rng.Bool() {
		m.SectionTitle = c14Str(rng)
	}
	m.HeadingLevel = rng.Intn(4)
	m.PageStart = rng.Intn(6)
	m.PageEnd = m.PageStart + rng.Intn(3)
	m.ChunkIndex = i
	if rng.Chance(1, 2) {
		// chunks of several documents in one collection: the index is the chunk's own, not its position here
		m.ChunkIndex = rng.Intn(6)
	}
	m.TotalChunks = rng.Intn(10)
	m.Level = levels[rng.Intn(4)]
	if rng.Chance(1, 3) {
		m.ParentID = c14Str(rng)
	}
	if rng.Chance(1, 3) {
		m.ChildIDs = []string{c14Str(rng), "c2"}
	}
	if rng.Chance(1, 2) {
		m.ElementTypes = []string{[]string{"paragraph", "Table", "list", "heading", "LIST", "table", "Paragraph"}[rng.Intn(7)]}
		if rng.Chance(1, 3) {
			m.ElementTypes = append(m.ElementTypes, []string{"table", "List", "image"}[rng.Intn(3)])
		}
	}
	m.HasTable, m.HasList, m.HasImage = rng.Bool(), rng.Bool(), rng.Chance(1, 4)
	m.CharCount = len(c.Text)
	m.WordCount = rng.Intn(50)
	m.EstimatedTokens = rng.Intn(300)
	return c
}

func bsList(l []string) V {
	var v VL = VL{}
	for _, s := range l {
		v = append(v, Bs(s))
	}
	return v
}

func c14ChunkV(c *rag.Chunk) V {
	m := c.Metadata
	return L(Bs(c.ID), Bs(c.Text), Bs(m.DocumentTitle), bsList(m.SectionPath), Bs(m.SectionTitle), I(m.HeadingLevel), I(m.PageStart), I(m.PageEnd),
		I(m.ChunkIndex), I(m.TotalChunks), Bs(m.Level.String()), Bs(m.ParentID), bsList(m.ChildIDs), bsList(m.ElementTypes),
		Bool(m.HasTable), Bool(m.HasList), Bool(m.HasImage), I(m.CharCount), I(m.WordCount), I(m.EstimatedTokens))
}

func c14ConfigV(cfg rag.ExportConfig) V {
	var fs V = L()
	if cfg.MetadataFields != nil {
		fs = L(bsList(cfg.MetadataFields))
	}
	return L(Bool(cfg.IncludeMetadata), fs, Bool(cfg.IncludeText), Bool(cfg.IncludeEmbeddings), Bool(cfg.IncludeHeader), I(int(cfg.CSVDelimiter)), Bs(cfg.TextColumnName), Bs(cfg.ChunkIDColumnName))
}

// canonical val of a parsed JSON value (object keys sorted)
func jsonV(x interface{}) V {
	switch v := x.(type) {
	case string:
		return Bs(v)
	case json.Number:
		var n int64
		fmt.Sscan(v.String(), &n)
		return I64(n)
	case bool:
		return L(I(9), Bool(v))
	case []interface{}:
		l := VL{I(7)}
		for _, e := range v {
			l = append(l, jsonV(e))
		}
		return l
	case map[string]interface{}:
		keys := make([]string, 0, len(v))
		for k := range v {
			keys = append(keys, k)
		}
		sort.Strings(keys)
		l := VL{I(8)}
		for _, k := range keys {
			l = append(l, L(Bs(k), jsonV(v[k])))
		}
		return l
	case nil:
		return L(I(6))
	}
	return L(I(-1))
}

func parseJSON(data []byte) (interface{}, error) {
	dec := json.NewDecoder(bytes.NewReader(data))
	dec.UseNumber()
	var x interface{}
	err := dec.Decode(&x)
	if err == nil && dec.More() {
		return nil, fmt.Errorf("trailing data")
	}
	return x, err
}

// independent RFC 4180 reader (Go side)
func rfc4180(d byte, s string) ([][]string, bool) {
	var rows [][]string
	var row []string
	var cur strings.Builder
	i := 0
	n := len(s)
	atFieldStart := true
	rowOpen := false
	for i < n {
		c := s[i]
		if atFieldStart && c == '"' {
			i++
			for {
				if i >= n {
					return nil, false
				}
				if s[i] == '"' {
					if i+1 < n && s[i+1] == '"' {
						cur.WriteByte('"')
						i += 2
						continue
					}
					i++
					break
				}
				cur.WriteByte(s[i])
				i++
			}
			atFieldStart = false
			rowOpen = true
			if i < n && s[i] != d && s[i] != '\n' && !(s[i] == '\r' && i+1 < n && s[i+1] == '\n') {
				return nil, false
			}
			continue
		}
		switch {
		case c == d:
			row = append(row, cur.String())
			cur.Reset()
			atFieldStart = true
			rowOpen = true
			i++
		case c == '\n' || (c == '\r' && i+1 < n && s[i+1] == '\n'):
			row = append(row, cur.String())
			cur.Reset()
			rows = append(rows, row)
			row = nil
			atFieldStart = true
			rowOpen = false
			if c == '\r' {
				i += 2
			} else {
				i++
			}
		default:
			cur.WriteByte(c)
			atFieldStart = false
			rowOpen = true
			i++
		}
	}
	if rowOpen || cur.Len() > 0 {
		row = append(row, cur.String())
		rows = append(rows, row)
	}
	return rows, true
}

func init() {
	props["C14"] = func(r *Run, rng *RNG) {
		thorough := r.Tier == "thorough"
		r.Rule = "chunk collections (0..6 chunks) with adversarial ids, texts, titles and section names (commas, tabs, quotes, CR, LF, CRLF, NUL, emoji, JSON-looking text, leading blanks, backslash-dot, NBSP) x export configurations (CSV/TSV/semicolon, header on/off, text on/off, metadata on/off, include lists, embeddings column, pretty printing, custom column names) x JSON / JSONL / vector-database formats x batch sizes 1..n+1 x stream export x filter predicates and chains; raw CSV writer on adversarial rows. non-trivial = at least 2 chunks"
		n := 250
		if thorough {
			n = 8000
		}
		for it := 0; it < n; it++ {
			nc := rng.Range(0, 6)
			var chunks []*rag.Chunk
			for i := 0; i < nc; i++ {
				chunks = append(chunks, c14Chunk(rng, i))
			}
			var cv VL = VL{}
			for _, c := range chunks {
				cv = append(cv, c14ChunkV(c))
			}
			cfg := rag.DefaultExportConfig()
			cfg.IncludeMetadata = rng.Chance(4, 5)
			cfg.IncludeText = rng.Chance(4, 5)
			cfg.IncludeHeader = rng.Chance(3, 4)
			cfg.IncludeEmbeddings = rng.Chance(1, 5)
			cfg.FlattenMetadata = rng.Bool()
			cfg.PrettyPrint = rng.Bool()
			if rng.Chance(1, 3) {
				all := []string{"section_path", "level", "word_count", "page_start", "has_table", "element_types", "nonexistent", "parent_id", "chunk_index"}
				k := rng.Intn(5)
				cfg.MetadataFields = []string{}
				for j := 0; j < k; j++ {
					cfg.MetadataFields = append(cfg.MetadataFields, all[rng.Intn(len(all))])
				}
			}
			if rng.Chance(1, 6) {
				cfg.TextColumnName, cfg.ChunkIDColumnName = "content", "uid"
			}
			// ---- CSV / TSV
			cfg.Format = rag.ExportFormatCSV
			cfg.CSVDelimiter = []rune{',', '\t', ';', '|'}[rng.Intn(4)]
			if cfg.CSVDelimiter == '\t' {
				cfg.Format = rag.ExportFormatTSV
			}
			out, err := rag.NewExporterWithConfig(cfg).ExportToString(chunks)
			cfgV := c14ConfigV(cfg)
			caseV := L(I(0), cfgV, cv)
			if err == nil && it%5 == 0 {
				// a file written before is replaced: the same path holds exactly the newest export, whatever was
				// exported to it before (a longer collection first, then this one, then a filtered one)
				fp := tmpFile(r, ".export", nil)
				ex := rag.NewExporterWithConfig(cfg)
				longer := append(append([]*rag.Chunk{}, chunks...), chunks...)
				e1 := ex.ExportToFile(longer, fp)
				e2 := ex.ExportToFile(chunks, fp)
				got, e3 := os.ReadFile(fp)
				why := ""
				if e1 != nil || e2 != nil || e3 != nil {
					why = fmt.Sprintf("export to a file failed: %v %v %v", e1, e2, e3)
				} else if string(got) != out {
					why = fmt.Sprintf("a file exported to twice holds %d bytes, the export itself is %d bytes", len(got), len(out))
				} else if nc >= 2 {
					coll := rag.NewChunkCollection(chunks[:1])
					e4 := coll.ExportToFile(fp, cfg)
					got2, _ := os.ReadFile(fp)
					want2, _ := ex.ExportToString(chunks[:1])
					if e4 != nil || string(got2) != want2 {
						why = fmt.Sprintf("after exporting one chunk to the same path the file holds %d bytes, the export itself is %d bytes (%v)", len(got2), len(want2), e4)
					}
				}
				r.Check(why == "", "export-to-file", why, caseV)
			}
			if err != nil {
				r.Check(false, "csv-error", "CSV export failed: "+err.Error(), caseV)
			} else {
				r.Case(caseV, Bs(out), "csv", nc >= 2)
				rows, ok := rfc4180(byte(cfg.CSVDelimiter), out)
				hdr := 0
				if cfg.IncludeHeader {
					hdr = 1
				}
				good := ok && len(rows) == nc+hdr
				if good {
					w := -1
					for _, rw := range rows {
						if w == -1 {
							w = len(rw)
						}
						if len(rw) != w {
							good = false
						}
					}
					for i, c := range chunks {
						rw := rows[i+hdr]
						if rw[0] != c.ID || (cfg.IncludeText && rw[1] != c.Text) {
							good = false
						}
					}
				}
				r.Check(good, "csv-parse-back", "CSV/TSV output does not parse back to one rectangular row per chunk with the same id and text", caseV)
				// the extracted Coq reader on the implementation's bytes must agree with the Go-side reader
				if ok {
					var rv VL = VL{}
					for _, rw := range rows {
						rv = append(rv, bsList(rw))
					}
					r.Case(L(I(5), I(int(cfg.CSVDelimiter)), Bs(out)), L(rv), "csv-reader", nc >= 2)
				}
			}
			// ---- JSON and JSONL
			for _, f := range []rag.ExportFormat{rag.ExportFormatJSON, rag.ExportFormatJSONL} {
				cfg.Format = f
				out, err := rag.NewExporterWithConfig(cfg).ExportToString(chunks)
				caseV := L(I(1), cfgV, cv)
				if err != nil {
					r.Check(false, "json-error", "JSON export failed: "+err.Error(), caseV)
					continue
				}
				var recs []interface{}
				okp := true
				if f == rag.ExportFormatJSON {
					x, e := parseJSON([]byte(out))
					if arr, isArr := x.([]interface{}); e == nil && isArr {
						recs = arr
					} else if e == nil && x == nil {
						recs = nil
					} else {
						okp = false
					}
				} else {
					for _, ln := range strings.Split(out, "\n") {
						if ln == "" {
							continue
						}
						x, e := parseJSON([]byte(ln))
						if e != nil {
							okp = false
							break
						}
						recs = append(recs, x)
					}
				}
				name := "json"
				if f == rag.ExportFormatJSONL {
					name = "jsonl"
				}
				r.Check(okp && len(recs) == nc, name+"-records", fmt.Sprintf("%s output is not one well-formed record per chunk (%d records for %d chunks)", name, len(recs), nc), caseV)
				if okp {
					var rv VL = VL{}
					for _, x := range recs {
						rv = append(rv, jsonV(x))
					}
					r.Case(caseV, rv, name, nc >= 2)
					good := len(recs) == nc
					for i, c := range chunks {
						if !good {
							break
						}
						m, _ := recs[i].(map[string]interface{})
						id, _ := m["id"].(string)
						tx, _ := m["text"].(string)
						if id != c.ID || (cfg.IncludeText && tx != c.Text) {
							good = false
						}
						// the record's chunk index is the chunk's own (an absent field reads as 0)
						ci := int64(0)
						if n, ok := m["chunk_index"].(json.Number); ok {
							ci, _ = n.Int64()
						}
						if ci != int64(c.Metadata.ChunkIndex) {
							good = false
						}
					}
					r.Check(good, name+"-parse-back", name+" records do not carry the same id / text / chunk index in order", caseV)
				}
			}
			// ---- batches
			bs := rng.Range(1, nc+1)
			cfg.Format = rag.ExportFormatJSONL
			var got VL = VL{}
			cover := 0
			okB := true
			err = rag.NewBatchExporterWithConfig(bs, cfg).Export(chunks, func(b rag.ExportBatch) error {
				var ids VL = VL{}
				for _, ln := range strings.Split(b.Data, "\n") {
					if ln == "" {
						continue
					}
					x, e := parseJSON([]byte(ln))
					if e != nil {
						okB = false
						continue
					}
					m, _ := x.(map[string]interface{})
					id, _ := m["id"].(string)
					ids = append(ids, Bs(id))
				}
				if b.StartIndex != cover || b.ChunkCount != len(ids) || b.ChunkCount < 1 || b.ChunkCount > bs {
					okB = false
				}
				cover += b.ChunkCount
				got = append(got, ids)
				return nil
			})
			r.Case(L(I(2), I(bs), cv), got, "batches", nc >= 2)
			// every batch, in every format, is the export of exactly its chunks by a fresh exporter
			for _, bf := range []rag.ExportFormat{rag.ExportFormatCSV, rag.ExportFormatTSV, rag.ExportFormatJSONL, rag.ExportFormatJSON} {
				bcfg := cfg
				bcfg.Format = bf
				if bf == rag.ExportFormatCSV {
					bcfg.CSVDelimiter = ','
				}
				if bf == rag.ExportFormatTSV {
					bcfg.CSVDelimiter = '\t'
				}
				okEach := true
				why := ""
				berr := rag.NewBatchExporterWithConfig(bs, bcfg).Export(chunks, func(b rag.ExportBatch) error {
					if b.StartIndex < 0 || b.StartIndex+b.ChunkCount > nc {
						okEach, why = false, "batch bounds"
						return nil
					}
					want, werr := rag.NewExporterWithConfig(bcfg).ExportToString(chunks[b.StartIndex : b.StartIndex+b.ChunkCount])
					if werr != nil || want != b.Data {
						okEach = false
						why = fmt.Sprintf("batch starting at %d: %q, its chunks exported on their own: %q", b.StartIndex, b.Data, want)
					}
					return nil
				})
				r.Check(berr == nil && okEach, "batch-is-export-of-its-chunks", fmt.Sprintf("format %v, batch size %d: %s", bf, bs, why), L(I(2), I(bs), cv))
			}
			r.Check(err == nil && okB && cover == nc, "batches-partition", fmt.Sprintf("batches of size %d do not partition %d chunks", bs, nc), L(I(2), I(bs), cv))
			// ---- stream
			var sb bytes.Buffer
			se := rag.NewStreamExporterWithConfig(&sb, cfg)
			for i, c := range chunks {
				se.WriteChunk(c, i)
			}
			se.Close()
			lines := 0
			okS := true
			for i, ln := range strings.Split(strings.TrimRight(sb.String(), "\n"), "\n") {
				if ln == "" {
					continue
				}
				x, e := parseJSON([]byte(ln))
				m, _ := x.(map[string]interface{})
				if e != nil || i >= nc || m["id"] != chunks[i].ID {
					okS = false
				}
				lines++
			}
			r.Check(okS && lines == nc, "stream-once", "stream export is not one record per chunk in order", cv)
			// ---- vector database formats (now and then with a text of some 45 KB: no format may shorten it)
			if it%20 == 0 && nc > 0 {
				chunks[0].Text = strings.Repeat("long text \u00e9\u4e2d ", 3000)
			}
			emb := make([][]float64, nc)
			for i := range emb {
				emb[i] = []float64{0.5, float64(i)}
			}
			ee := rag.NewEmbeddingExporter()
			var pb, cb, wb bytes.Buffer
			e1 := ee.ExportForPinecone(chunks, emb, &pb)
			e2 := ee.ExportForChroma(chunks, emb, &cb)
			e3 := ee.ExportForWeaviate(chunks, emb, "Doc", &wb)
			okV := e1 == nil && e2 == nil && e3 == nil
			if okV {
				px, pe := parseJSON(pb.Bytes())
				cx, ce := parseJSON(cb.Bytes())
				okV = pe == nil && ce == nil
				if okV {
					pv, _ := px.(map[string]interface{})["vectors"].([]interface{})
					cm, _ := cx.(map[string]interface{})
					cids, _ := cm["ids"].([]interface{})
					cdocs, _ := cm["documents"].([]interface{})
					if len(pv) != nc || len(cids) != nc || len(cdocs) != nc {
						okV = false
					}
					for i, c := range chunks {
						if !okV {
							break
						}
						pm, _ := pv[i].(map[string]interface{})
						pmd, _ := pm["metadata"].(map[string]interface{})
						if pm["id"] != c.ID || pmd["text"] != c.Text || cids[i] != c.ID || cdocs[i] != c.Text {
							okV = false
						}
					}
				}
				wl := 0
				for i, ln := range strings.Split(strings.TrimRight(wb.String(), "\n"), "\n") {
					if ln == "" {
						continue
					}
					x, e := parseJSON([]byte(ln))
					m, _ := x.(map[string]interface{})
					props, _ := m["properties"].(map[string]interface{})
					if e != nil || i >= nc || m["id"] != chunks[i].ID || props["content"] != chunks[i].Text {
						okV = false
					}
					wl++
				}
				if wl != nc {
					okV = false
				}
			}
			r.Check(okV, "vectordb-records", "a vector-database export is not one well-formed record per chunk with the same id and text", cv)
			// a record depends on its own chunk only: exported alone, the chunk gives the same record
			if okV && nc >= 2 {
				same := true
				why := ""
				wlines := strings.Split(strings.TrimRight(wb.String(), "\n"), "\n")
				px, _ := parseJSON(pb.Bytes())
				pvs, _ := px.(map[string]interface{})["vectors"].([]interface{})
				cx, _ := parseJSON(cb.Bytes())
				cmeta, _ := cx.(map[string]interface{})["metadatas"].([]interface{})
				for i := range chunks {
					var p1, c1, w1 bytes.Buffer
					one := rag.NewEmbeddingExporter()
					one.ExportForPinecone(chunks[i:i+1], emb[i:i+1], &p1)
					one.ExportForChroma(chunks[i:i+1], emb[i:i+1], &c1)
					one.ExportForWeaviate(chunks[i:i+1], emb[i:i+1], "Doc", &w1)
					wx, _ := parseJSON([]byte(strings.TrimSpace(w1.String())))
					fx, _ := parseJSON([]byte(wlines[i]))
					if !reflect.DeepEqual(wx, fx) {
						same, why = false, fmt.Sprintf("Weaviate record %d: %s; alone: %s", i, wlines[i], strings.TrimSpace(w1.String()))
					}
					p1x, _ := parseJSON(p1.Bytes())
					p1v, _ := p1x.(map[string]interface{})["vectors"].([]interface{})
					if len(p1v) != 1 || i >= len(pvs) || !reflect.DeepEqual(p1v[0], pvs[i]) {
						same, why = false, fmt.Sprintf("Pinecone record %d differs from the record of the chunk alone", i)
					}
					c1x, _ := parseJSON(c1.Bytes())
					c1m, _ := c1x.(map[string]interface{})["metadatas"].([]interface{})
					if len(c1m) != 1 || i >= len(cmeta) || !reflect.DeepEqual(c1m[0], cmeta[i]) {
						same, why = false, fmt.Sprintf("Chroma metadata %d differs from the metadata of the chunk alone", i)
					}
				}
				r.Check(same, "vectordb-record-of-its-chunk", why, cv)
			}
			// ---- filters
			cc := rag.NewChunkCollection(chunks)
			ids := func(c *rag.ChunkCollection) V {
				var v VL = VL{}
				for _, x := range c.Chunks {
					v = append(v, Bs(x.ID))
				}
				return v
			}
			a, b := rng.Intn(7), rng.Intn(7)
			sec := c14Str(rng)
			if nc > 0 && rng.Bool() {
				sec = chunks[rng.Intn(nc)].Metadata.SectionTitle
			}
			r.Case(L(I(3), I(0), I(a), I(0), Bs(""), cv), ids(cc.FilterByPage(a)), "filter", nc >= 2)
			r.Case(L(I(3), I(1), I(a), I(b), Bs(""), cv), ids(cc.FilterByPageRange(a, b)), "filter", nc >= 2)
			r.Case(L(I(3), I(2), I(0), I(0), Bs(sec), cv), ids(cc.FilterBySection(sec)), "filter", nc >= 2)
			r.Case(L(I(3), I(3), I(a*40), I(0), Bs(""), cv), ids(cc.FilterByMinTokens(a*40)), "filter", nc >= 2)
			r.Case(L(I(3), I(4), I(a*40), I(0), Bs(""), cv), ids(cc.FilterByMaxTokens(a*40)), "filter", nc >= 2)
			r.Case(L(I(3), I(5), I(0), I(0), Bs(""), cv), ids(cc.FilterWithTables()), "filter", nc >= 2)
			r.Case(L(I(3), I(6), I(0), I(0), Bs(""), cv), ids(cc.FilterWithLists()), "filter", nc >= 2)
			r.Case(L(I(3), I(7), I(0), I(0), Bs(""), cv), ids(cc.FilterWithImages()), "filter", nc >= 2)
			// each named filter returns exactly the chunks satisfying its predicate, in order
			same := func(got *rag.ChunkCollection, pred func(c *rag.Chunk) bool) bool {
				var want []string
				for _, c := range chunks {
					if pred(c) {
						want = append(want, c.ID)
					}
				}
				if len(want) != len(got.Chunks) {
					return false
				}
				for i := range want {
					if got.Chunks[i].ID != want[i] {
						return false
					}
				}
				return true
			}
			inSec := func(c *rag.Chunk) bool {
				if c.Metadata.SectionTitle == sec {
					return true
				}
				for _, s := range c.Metadata.SectionPath {
					if s == sec {
						return true
					}
				}
				return false
			}
			fcv := L(I(3), I(2), I(a), I(b), Bs(sec), cv)
			r.Check(same(cc.FilterBySection(sec), inSec), "filter-section", "FilterBySection does not return exactly the chunks in that section", fcv)
			r.Check(same(cc.FilterByPage(a), func(c *rag.Chunk) bool { return a >= c.Metadata.PageStart && a <= c.Metadata.PageEnd }), "filter-page", "FilterByPage does not return exactly the chunks on that page", fcv)
			r.Check(same(cc.FilterByPageRange(a, b), func(c *rag.Chunk) bool { return c.Metadata.PageEnd >= a && c.Metadata.PageStart <= b }), "filter-page-range", "FilterByPageRange does not return exactly the chunks overlapping the range", fcv)
			r.Check(same(cc.FilterByMinTokens(a*40), func(c *rag.Chunk) bool { return c.Metadata.EstimatedTokens >= a*40 }), "filter-tokens", "FilterByMinTokens is wrong", fcv)
			r.Check(same(cc.FilterByMaxTokens(a*40), func(c *rag.Chunk) bool { return c.Metadata.EstimatedTokens <= a*40 }), "filter-tokens", "FilterByMaxTokens is wrong", fcv)
			r.Check(same(cc.FilterWithTables(), func(c *rag.Chunk) bool { return c.Metadata.HasTable }) && same(cc.FilterWithLists(), func(c *rag.Chunk) bool { return c.Metadata.HasList }) && same(cc.FilterWithImages(), func(c *rag.Chunk) bool { return c.Metadata.HasImage }), "filter-flags", "FilterWith* is wrong", fcv)
			for _, et := range []string{"table", "TABLE", "List", "paragraph", "image", "nothing"} {
				r.Check(same(cc.FilterByElementType(et), func(c *rag.Chunk) bool {
					for _, x := range c.Metadata.ElementTypes {
						if strings.EqualFold(x, et) {
							return true
						}
					}
					return false
				}), "filter-element-type", "FilterByElementType("+et+") does not return exactly the chunks with an element of that type (letter case aside)", fcv)
			}
			kw := "LINE"
			r.Check(same(cc.Search(kw), func(c *rag.Chunk) bool { return strings.Contains(strings.ToLower(c.Text), "line") }), "filter-search", "Search does not return exactly the chunks containing the keyword", fcv)
			// chaining = conjunction, in order
			ch := cc.FilterWithTables().FilterByPage(a)
			var want []string
			for _, c := range chunks {
				if c.Metadata.HasTable && a >= c.Metadata.PageStart && a <= c.Metadata.PageEnd {
					want = append(want, c.ID)
				}
			}
			okF := len(want) == len(ch.Chunks)
			for i := range want {
				if okF && ch.Chunks[i].ID != want[i] {
					okF = false
				}
			}
			r.Check(okF, "filter-chain", "chained filters are not the conjunction of the predicates in order", cv)
		}
	}
}
