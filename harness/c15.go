package main

import (
	"fmt"
	"github.com/tsawler/tabula"
	"html"
	"sort"
	"strings"

	"github.com/tsawler/tabula/docx"
	"github.com/tsawler/tabula/epubdoc"
	"github.com/tsawler/tabula/htmldoc"
	"github.com/tsawler/tabula/model"
	"github.com/tsawler/tabula/odt"
	"github.com/tsawler/tabula/pptx"
	"github.com/tsawler/tabula/rag"
	"github.com/tsawler/tabula/xlsx"
)

// ---- an independent GFM pipe-table reader (Go side; the Coq one is extracted)
func isPunct(c byte) bool {
	return (c >= 33 && c <= 47) || (c >= 58 && c <= 64) || (c >= 91 && c <= 96) || (c >= 123 && c <= 126)
}

func gfmSplit(s string) []string {
	var out []string
	var cur strings.Builder
	for i := 0; i < len(s); i++ {
		c := s[i]
		if c == '\\' && i+1 < len(s) && isPunct(s[i+1]) {
			cur.WriteByte(c)
			cur.WriteByte(s[i+1])
			i++
			continue
		}
		if c == '|' {
			out = append(out, cur.String())
			cur.Reset()
			continue
		}
		cur.WriteByte(c)
	}
	return append(out, cur.String())
}

func gfmRow(line string) []string {
	l := strings.Trim(line, " \t")
	l = strings.TrimPrefix(l, "|")
	raw := gfmSplit(l)
	if len(raw) > 0 && strings.Trim(raw[len(raw)-1], " \t") == "" {
		raw = raw[:len(raw)-1]
	}
	for i := range raw {
		raw[i] = strings.ReplaceAll(strings.Trim(raw[i], " \t"), "\\|", "|")
	}
	return raw
}

func gfmTable(md string) ([][]string, bool) {
	var lines []string
	{
		cur := ""
		for i := 0; i < len(md); i++ {
			if md[i] == '\n' || md[i] == '\r' {
				lines = append(lines, cur)
				cur = ""
			} else {
				cur += string(md[i : i+1])
			}
		}
		if cur != "" {
			lines = append(lines, cur)
		}
	}
	if len(lines) < 2 {
		return nil, false
	}
	h := gfmRow(lines[0])
	d := gfmRow(lines[1])
	if len(h) != len(d) || len(h) == 0 {
		return nil, false
	}
	for _, c := range d {
		c = strings.TrimPrefix(c, ":")
		c = strings.TrimSuffix(c, ":")
		if c == "" || strings.Trim(c, "-") != "" {
			return nil, false
		}
	}
	grid := [][]string{h}
	for _, l := range lines[2:] {
		if strings.Trim(l, " \t") == "" {
			break
		}
		r := gfmRow(l)
		for len(r) < len(h) {
			r = append(r, "")
		}
		grid = append(grid, r[:len(h)])
	}
	return grid, true
}

var c15Cells = []string{"plain", "a|b", "|", "two\nlines", "", " padded ", "x\\y", "trailing\\", "a\\|b", "**bold**", "café ☕", "1,234.5", "tab\there", "-", ":---:", "`code`", "q\"uote", "cr\rhere", "||", "a | b | c"}

func c15Cell(rng *RNG, allowCR, allowBackslashPipe bool) string {
	for {
		s := c15Cells[rng.Intn(len(c15Cells))]
		if rng.Chance(1, 4) {
			s += c15Cells[rng.Intn(len(c15Cells))]
		}
		if !allowCR && strings.Contains(s, "\r") {
			continue
		}
		if !allowBackslashPipe && strings.Contains(s, "\\|") {
			continue
		}
		return s
	}
}

// what a GFM reader must give back for a source cell: newlines are spaces, the cell is trimmed
func c15Norm(s string, dropCR bool, crSpace bool) string {
	s = strings.ReplaceAll(s, "\n", " ")
	if dropCR {
		s = strings.ReplaceAll(s, "\r", "")
	}
	if crSpace {
		s = strings.ReplaceAll(s, "\r", " ")
	}
	return strings.Trim(s, " \t")
}

func rowsV(rows [][]string) V {
	var v VL = VL{}
	for _, r := range rows {
		v = append(v, bsList(r))
	}
	return v
}

func init() {
	props["C15"] = func(r *Run, rng *RNG) {
		thorough := r.Tier == "thorough"
		r.Rule = "rectangular grids (1..5 rows x 1..5 columns) with cells containing pipes, newlines, backslashes, carriage returns (for the writers that handle them), leading/trailing blanks, Markdown-looking text, or nothing, through the five table writers (model.Table, docx, odt, xlsx, pptx, htmldoc) incl. column spans and merged-away cells for docx/odt; heading levels -1..9 x offsets -2..7 x maxima 0..8; the Markdown is read back with a GFM pipe-table reader (extracted Coq reader and an independent Go reader). non-trivial = a grid with at least 2 rows and 2 columns"
		n := 300
		if thorough {
			n = 10000
		}
		check := func(md string, want [][]string, class string, cv V) {
			got, ok := gfmTable(md)
			good := ok && len(got) == len(want)
			for i := range want {
				if !good {
					break
				}
				if len(got[i]) != len(want[i]) {
					good = false
					break
				}
				for j := range want[i] {
					if got[i][j] != want[i][j] {
						good = false
					}
				}
			}
			r.Check(good, class, fmt.Sprintf("the Markdown table does not read back as the source grid (%d rows)", len(want)), cv)
			// the extracted Coq reader on the implementation's output
			if ok {
				r.Case(L(I(7), Bs(md)), L(rowsV(got)), "gfm-reader", len(want) >= 2)
			} else {
				r.Case(L(I(7), Bs(md)), L(), "gfm-reader", false)
			}
		}
		for it := 0; it < n; it++ {
			nr, nc := rng.Range(1, 5), rng.Range(1, 5)
			mk := func(allowCR bool) [][]string {
				var rows [][]string
				for i := 0; i < nr; i++ {
					var row []string
					for j := 0; j < nc; j++ {
						row = append(row, c15Cell(rng, allowCR, it%10 == 9))
					}
					rows = append(rows, row)
				}
				return rows
			}
			normGrid := func(rows [][]string, dropCR, crSpace bool) [][]string {
				var out [][]string
				for _, r := range rows {
					var o []string
					for _, c := range r {
						o = append(o, c15Norm(c, dropCR, crSpace))
					}
					out = append(out, o)
				}
				return out
			}
			hasBSP := func(rows [][]string) bool {
				for _, r := range rows {
					for _, c := range r {
						if strings.Contains(c, "\\|") {
							return true
						}
					}
				}
				return false
			}
			nt := nr >= 2 && nc >= 2
			// model.Table
			rows := mk(false)
			mt := model.NewTable(nr, nc)
			for i := range rows {
				for j := range rows[i] {
					mt.Rows[i][j].Text = rows[i][j]
				}
			}
			md := mt.ToMarkdown()
			cv := L(I(0), rowsV(rows))
			r.Case(cv, Bs(md), "model.Table", nt)
			cls := "table:model"
			if hasBSP(rows) {
				cls = "backslash-before-pipe:model"
			}
			check(md, normGrid(rows, false, false), cls, cv)
			// xlsx
			rows = mk(false)
			xt := xlsx.ParsedTable{Headers: rows[0], Rows: rows[1:]}
			md = xt.ToMarkdown()
			cv = L(I(1), bsList(rows[0]), rowsV(rows[1:]))
			r.Case(cv, Bs(md), "xlsx", nt)
			cls = "table:xlsx"
			if hasBSP(rows) {
				cls = "backslash-before-pipe:xlsx"
			}
			check(md, normGrid(rows, false, false), cls, cv)
			// pptx
			rows = mk(true)
			pt := pptx.Table{Columns: nc}
			for _, rw := range rows {
				var cells []pptx.TableCell
				for _, c := range rw {
					cells = append(cells, pptx.TableCell{Text: c, RowSpan: 1, ColSpan: 1})
				}
				pt.Rows = append(pt.Rows, cells)
			}
			md = pt.ToMarkdown()
			cv = L(I(2), rowsV(rows))
			r.Case(cv, Bs(md), "pptx", nt)
			cls = "table:pptx"
			if hasBSP(rows) {
				cls = "backslash-before-pipe:pptx"
			}
			check(md, normGrid(rows, false, true), cls, cv)
			// htmldoc
			rows = mk(true)
			ht := htmldoc.ParsedTable{HasHeader: rng.Bool()}
			for _, rw := range rows {
				var cells []htmldoc.TableCell
				for _, c := range rw {
					cells = append(cells, htmldoc.TableCell{Text: c, RowSpan: 1, ColSpan: 1})
				}
				ht.Rows = append(ht.Rows, cells)
			}
			md = ht.ToMarkdown()
			cv = L(I(3), rowsV(rows))
			r.Case(cv, Bs(md), "htmldoc", nt)
			cls = "table:htmldoc"
			if hasBSP(rows) {
				cls = "backslash-before-pipe:htmldoc"
			}
			check(md, normGrid(rows, true, false), cls, cv)
			// docx / odt with spans: a grid of nr x nc positions; some cells span columns, some are merged away
			type sc struct {
				text   string
				span   int
				merged bool
			}
			var srows [][]sc
			var want [][]string
			for i := 0; i < nr; i++ {
				var row []sc
				wrow := make([]string, nc)
				col := 0
				for col < nc {
					span := 1
					if rng.Chance(1, 5) && col+1 < nc {
						span = rng.Range(2, nc-col)
					}
					merged := i > 0 && rng.Chance(1, 6)
					txt := c15Cell(rng, false, it%10 == 9)
					if merged {
						txt = ""
					}
					row = append(row, sc{txt, span, merged})
					wrow[col] = c15Norm(txt, false, false)
					col += span
				}
				// sometimes a short row (fewer cells than columns): padded
				if rng.Chance(1, 8) && len(row) > 1 {
					last := row[len(row)-1]
					row = row[:len(row)-1]
					for k := 0; k < nc; k++ {
						_ = k
					}
					// blank out what the dropped cell covered
					c0 := nc - last.span
					for k := c0; k < nc; k++ {
						wrow[k] = ""
					}
				}
				srows = append(srows, row)
				want = append(want, wrow)
			}
			// the widest row decides the column count; make sure the first row is full width so the header has nc cells
			var dt docx.ParsedTable
			var ot odt.ParsedTable
			var sv VL = VL{}
			anyBSP := false
			for _, row := range srows {
				var dr docx.ParsedTableRow
				var or odt.ParsedTableRow
				var rv VL = VL{}
				for _, c := range row {
					dr.Cells = append(dr.Cells, docx.ParsedTableCell{Text: c.text, ColSpan: c.span, RowSpan: 1, IsMergedContinuation: c.merged})
					or.Cells = append(or.Cells, odt.ParsedTableCell{Text: c.text, ColSpan: c.span, RowSpan: 1, IsCovered: c.merged})
					rv = append(rv, L(Bs(c.text), I(c.span), Bool(c.merged)))
					if strings.Contains(c.text, "\\|") {
						anyBSP = true
					}
				}
				dt.Rows = append(dt.Rows, dr)
				ot.Rows = append(ot.Rows, or)
				sv = append(sv, rv)
			}
			// effective width = widest row
			width := 0
			for _, row := range srows {
				w := 0
				for _, c := range row {
					w += c.span
				}
				if w > width {
					width = w
				}
			}
			for i := range want {
				want[i] = want[i][:width]
			}
			cv = L(I(4), sv)
			md = dt.ToMarkdown()
			r.Case(cv, Bs(md), "docx", nt)
			cls = "table:docx"
			if anyBSP {
				cls = "backslash-before-pipe:docx"
			}
			check(md, want, cls, cv)
			md2 := ot.ToMarkdown()
			r.Case(cv, Bs(md2), "odt", nt)
			cls = "table:odt"
			if anyBSP {
				cls = "backslash-before-pipe:odt"
			}
			check(md2, want, cls, cv)
		}
		// ---- heading levels through DOCX and ODT documents
		hcount := func(md, title string) int {
			for _, ln := range strings.Split(md, "\n") {
				if strings.HasPrefix(ln, "#") && strings.HasSuffix(ln, " "+title) {
					return len(ln) - len(strings.TrimLeft(ln, "#"))
				}
			}
			return 0
		}
		var hb []wpBlock
		for lvl := 1; lvl <= 9; lvl++ {
			hb = append(hb, wpBlock{kind: 1, level: lvl, via: lvl % 3, inl: []wpInline{{0, fmt.Sprintf("Title%d", lvl)}}})
			hb = append(hb, wpBlock{kind: 0, inl: []wpInline{{0, fmt.Sprintf("body text %d", lvl)}}})
		}
		docxPath := tmpFile(r, ".docx", writeZip(mkDOCXBlocks(hb, "", "")))
		odtPath := tmpFile(r, ".odt", writeZip(mkODTBlocks(hb)))
		// the same headings in a package whose heading styles are chained (one more block flips the writer's choice)
		if dr2, e := docx.Open(tmpFile(r, ".docx", writeZip(mkDOCXBlocks(append(append([]wpBlock{}, hb...), wpBlock{kind: 0, inl: []wpInline{{0, "last paragraph"}}}), "", "")))); e == nil {
			md2, e2 := dr2.MarkdownWithRAGOptions(docx.ExtractOptions{}, rag.DefaultMarkdownOptions())
			md1 := ""
			if dr1, e := docx.Open(docxPath); e == nil {
				md1, _ = dr1.MarkdownWithRAGOptions(docx.ExtractOptions{}, rag.DefaultMarkdownOptions())
				dr1.Close()
			}
			why := ""
			for lvl := 1; lvl <= 9 && e2 == nil; lvl++ {
				title := fmt.Sprintf("Title%d", lvl)
				if a, b := hcount(md2, title), hcount(md1, title); a != b {
					why = fmt.Sprintf("heading of level %d (style kind %d): %d '#' when the heading styles are chained, %d when each is based on Normal", lvl, lvl%3, a, b)
				}
			}
			r.Check(e2 == nil && why == "", "heading-level:docx-chained-styles", why, nil)
			dr2.Close()
		} else {
			r.Check(false, "heading-docs-open", "generated heading document with chained styles does not open: "+e.Error(), nil)
		}
		dr, derr := docx.Open(docxPath)
		or, oerr := odt.Open(odtPath)
		r.Check(derr == nil && oerr == nil, "heading-docs-open", fmt.Sprintf("generated heading documents do not open: %v %v", derr, oerr), nil)
		if derr == nil && oerr == nil {
			for off := -2; off <= 7; off++ {
				for mx := 0; mx <= 8; mx++ {
					opts := rag.DefaultMarkdownOptions()
					opts.HeadingLevelOffset = off
					opts.MaxHeadingLevel = mx
					opts.IncludeTableOfContents = mx%2 == 0
					dmd, e1 := dr.MarkdownWithRAGOptions(docx.ExtractOptions{}, opts)
					omd, e2 := or.MarkdownWithRAGOptions(odt.ExtractOptions{}, opts)
					if e1 != nil || e2 != nil {
						r.Check(false, "heading-markdown-error", fmt.Sprintf("%v %v", e1, e2), nil)
						continue
					}
					for lvl := 1; lvl <= 9; lvl++ {
						title := fmt.Sprintf("Title%d", lvl)
						cv := L(I(5), I(lvl), I(off), I(mx))
						gd, go_ := hcount(dmd, title), hcount(omd, title)
						r.Case(cv, I(gd), "heading:docx", true)
						r.Case(cv, I(go_), "heading:odt", true)
						if mx >= 1 && mx <= 6 && lvl <= 6 {
							want := lvl + off
							if want < 1 {
								want = 1
							}
							if want > mx {
								want = mx
							}
							r.Check(gd == want, "heading-level:docx", fmt.Sprintf("DOCX level %d offset %d max %d rendered with %d '#'", lvl, off, mx, gd), cv)
							r.Check(go_ == want, "heading-level:odt", fmt.Sprintf("ODT level %d offset %d max %d rendered with %d '#'", lvl, off, mx, go_), cv)
						}
						r.Check(gd >= 1 && gd <= 6 && go_ >= 1 && go_ <= 6, "heading-range", "a heading was rendered with fewer than 1 or more than 6 '#'", cv)
					}
					// no body text lost
					okB := true
					for lvl := 1; lvl <= 9; lvl++ {
						if !strings.Contains(dmd, fmt.Sprintf("body text %d", lvl)) || !strings.Contains(omd, fmt.Sprintf("body text %d", lvl)) {
							okB = false
						}
					}
					r.Check(okB, "markdown-text-lost", "body text missing from the Markdown of a DOCX/ODT document", nil)
				}
			}
			dr.Close()
			or.Close()
		}
		// ---- whole documents: lists and tables with merged cells through ToMarkdown
		nDocs := 40
		if thorough {
			nDocs = 600
		}
		for di := 0; di < nDocs; di++ {
			g := &c16gen{rng: rng}
			type litem struct {
				level   int
				ordered bool
				anchor  string
			}
			// two or three lists; in HTML the kind may change with the level
			var lists [][]litem
			var kinds [][3]bool
			for li := rng.Range(1, 3); li > 0; li-- {
				k := [3]bool{rng.Bool(), rng.Bool(), rng.Bool()}
				var items []litem
				lvl := 0
				for n := rng.Range(2, 7); n > 0; n-- {
					g.n++
					items = append(items, litem{lvl, k[lvl], fmt.Sprintf("q%dz", g.n)})
					switch rng.Intn(4) {
					case 0:
						if lvl < 2 {
							lvl++
						}
					case 1:
						if lvl > 0 {
							lvl--
						}
					case 2:
						if lvl > 0 && rng.Bool() {
							lvl = 0
						}
					case 3:
						// two levels down at once: the level between has no item of its own
						if lvl == 0 && rng.Chance(1, 3) {
							lvl = 2
						}
					}
				}
				lists = append(lists, items)
				kinds = append(kinds, k)
			}
			dx, od, R, C := g.genTable()
			wantGrid := make([][]string, R)
			for i := range wantGrid {
				wantGrid[i] = make([]string, C)
			}
			for _, row := range od {
				for _, c := range row {
					wantGrid[c.r][c.c] = strings.Join(strings.Fields(cellText(c.paras)), " ")
				}
			}
			// the documents: paragraph, list, paragraph, table, list ...
			mkBlocks := func(isDocx bool) []wpBlock {
				var bs []wpBlock
				bs = append(bs, wpBlock{kind: 0, inl: []wpInline{{0, "intro paragraph qstartz"}}})
				for li, items := range lists {
					for _, it := range items {
						// word-processor lists have one kind per list: the kind of level 0
						bs = append(bs, wpBlock{kind: 2, level: it.level, ordered: kinds[li][0], listID: 1 + 2*li + map[bool]int{false: 0, true: 1}[kinds[li][0]], inl: []wpInline{{0, "item " + it.anchor}}})
					}
					bs = append(bs, wpBlock{kind: 0, inl: []wpInline{{0, fmt.Sprintf("between paragraph qmid%dz", li)}}})
					if li == 0 {
						if isDocx {
							bs = append(bs, wpBlock{kind: 3, table: wpRows(dx, true)})
						} else {
							bs = append(bs, wpBlock{kind: 3, table: wpRows(od, false)})
						}
						bs = append(bs, wpBlock{kind: 0, inl: []wpInline{{0, "after the table qafterz"}}})
					}
				}
				return bs
			}
			var hb strings.Builder
			hb.WriteString("<html><body><p>intro paragraph qstartz</p>")
			for li, items := range lists {
				var emit func(k, level int) int
				emit = func(k, level int) int {
					tag := "ul"
					if kinds[li][level] {
						tag = "ol"
					}
					hb.WriteString("<" + tag + ">")
					for k < len(items) && items[k].level >= level {
						if items[k].level == level {
							hb.WriteString("<li>item " + items[k].anchor)
							k++
							if k < len(items) && items[k].level > level {
								k = emit(k, level+1)
							}
							hb.WriteString("</li>")
						} else {
							hb.WriteString("<li>")
							k = emit(k, level+1)
							hb.WriteString("</li>")
						}
					}
					hb.WriteString("</" + tag + ">")
					return k
				}
				emit(0, 0)
				fmt.Fprintf(&hb, "<p>between paragraph qmid%dz</p>", li)
				if li == 0 {
					hb.WriteString("<table>")
					for _, row := range od {
						hb.WriteString("<tr>")
						for _, c := range row {
							fmt.Fprintf(&hb, `<td colspan="%d" rowspan="%d">%s</td>`, c.span, c.rows, xmlEsc(strings.Join(strings.Fields(cellText(c.paras)), " ")))
						}
						hb.WriteString("</tr>")
					}
					hb.WriteString("</table><p>after the table qafterz</p>")
				}
			}
			hb.WriteString("</body></html>")
			docs := []struct {
				format string
				path   string
			}{
				{"docx", tmpFile(r, ".docx", writeZip(mkDOCXBlocks(mkBlocks(true), "", "")))},
				{"odt", tmpFile(r, ".odt", writeZip(mkODTBlocks(mkBlocks(false))))},
				{"html", tmpFile(r, ".html", []byte(hb.String()))},
			}
			for _, doc := range docs {
				if di%4 == 0 {
					c03OneReaderOf(r, doc.format, doc.path)
				}
				md, _, err := tabula.Open(doc.path).ToMarkdown()
				if err != nil {
					r.Check(false, "document-markdown:"+doc.format, "ToMarkdown fails: "+err.Error(), Bs(doc.path))
					continue
				}
				// (1) list items: order, kind, nesting
				type mdItem struct {
					indent  int
					ordered bool
					anchor  string
				}
				var got []mdItem
				tableAt := -1
				lines := strings.Split(md, "\n")
				for li, ln := range lines {
					t := strings.TrimLeft(ln, " ")
					ind := len(ln) - len(t)
					if strings.HasPrefix(t, "|") && tableAt < 0 {
						tableAt = li
					}
					as := anchorsOf(t)
					if len(as) != 1 || !strings.Contains(t, "item q") {
						continue
					}
					switch {
					case strings.HasPrefix(t, "- ") || strings.HasPrefix(t, "* ") || strings.HasPrefix(t, "+ "):
						got = append(got, mdItem{ind, false, as[0]})
					default:
						k := 0
						for k < len(t) && t[k] >= '0' && t[k] <= '9' {
							k++
						}
						if k > 0 && k+1 < len(t) && (t[k] == '.' || t[k] == ')') && t[k+1] == ' ' {
							got = append(got, mdItem{ind, true, as[0]})
						} else {
							got = append(got, mdItem{-1, false, as[0]})
						}
					}
				}
				var want []litem
				listOf := map[string]int{}
				for li, items := range lists {
					for _, it := range items {
						listOf[it.anchor] = li
						if doc.format != "html" {
							it.ordered = kinds[li][0]
						}
						want = append(want, it)
					}
				}
				okL := len(got) == len(want)
				why := ""
				if !okL {
					why = fmt.Sprintf("%d list items in the Markdown, %d in the document", len(got), len(want))
				}
				for i := 0; okL && i < len(want); i++ {
					switch {
					case got[i].anchor != want[i].anchor:
						okL, why = false, fmt.Sprintf("item %d is %s, the document has %s there", i, got[i].anchor, want[i].anchor)
					case got[i].indent < 0:
						okL, why = false, fmt.Sprintf("item %s is not written as a list item", want[i].anchor)
					case got[i].ordered != want[i].ordered:
						okL, why = false, fmt.Sprintf("item %s: ordered=%v in the Markdown, %v in the document", want[i].anchor, got[i].ordered, want[i].ordered)
					case i > 0 && listOf[want[i-1].anchor] == listOf[want[i].anchor]:
						dl := want[i].level - want[i-1].level
						di := got[i].indent - got[i-1].indent
						if (dl > 0) != (di > 0) || (dl < 0) != (di < 0) {
							okL, why = false, fmt.Sprintf("item %s: level goes %+d, indentation goes %+d", want[i].anchor, dl, di)
						}
					}
				}
				r.Check(okL, "document-lists:"+doc.format, why, Bs(doc.path))
				// (2) the table
				okT, whyT := true, ""
				if tableAt < 0 {
					okT, whyT = false, "no pipe table in the Markdown"
				} else {
					grid, ok := gfmTable(strings.Join(lines[tableAt:], "\n"))
					if !ok || len(grid) != R {
						okT, whyT = false, fmt.Sprintf("the pipe table has %d rows (readable: %v), the table has %d", len(grid), ok, R)
					}
					for i := 0; okT && i < R; i++ {
						if len(grid[i]) != C {
							okT, whyT = false, fmt.Sprintf("row %d has %d cells, the table has %d columns", i, len(grid[i]), C)
							break
						}
						for j := 0; j < C; j++ {
							cell := strings.Join(strings.Fields(strings.ReplaceAll(grid[i][j], "<br>", " ")), " ")
							if cell != wantGrid[i][j] && html.UnescapeString(cell) != wantGrid[i][j] {
								okT, whyT = false, fmt.Sprintf("cell (%d,%d) reads %q, the table has %q there", i, j, cell, wantGrid[i][j])
							}
						}
					}
				}
				r.Check(okT, "document-table:"+doc.format, whyT, Bs(doc.path))
				// (3) no body text lost
				okB := true
				for _, a := range []string{"qstartz", "qmid0z", "qafterz"} {
					if strings.Count(md, a) != 1 {
						okB = false
					}
				}
				r.Check(okB, "document-text:"+doc.format, "a body paragraph is missing from (or repeated in) the Markdown", Bs(doc.path))
			}
		}
		// ---- presentations and workbooks: every table of a slide / sheet is its own pipe table
		nDecks := 15
		if thorough {
			nDecks = 200
		}
		for di := 0; di < nDecks; di++ {
			g := &c16gen{rng: rng}
			mkGrid := func() [][]string {
				nr, nc := rng.Range(1, 4), rng.Range(1, 4)
				grid := make([][]string, nr)
				for i := range grid {
					for j := 0; j < nc; j++ {
						g.n++
						cell := fmt.Sprintf("q%dz", g.n)
						if rng.Chance(1, 6) {
							cell = ""
						}
						grid[i] = append(grid[i], cell)
					}
				}
				return grid
			}
			var slides [][]string
			var slideTables [][][][]string
			var members []zipMember
			nsl := rng.Range(1, 3)
			files := make([]string, nsl)
			for si := 0; si < nsl; si++ {
				files[si] = fmt.Sprintf("ppt/slides/slide%d.xml", si+1)
				slides = append(slides, []string{fmt.Sprintf("slide text qs%dz", si)})
				var tbs [][][]string
				for k := rng.Range(0, 3); k > 0; k-- {
					tbs = append(tbs, mkGrid())
				}
				slideTables = append(slideTables, tbs)
			}
			members = mkPPTX(slides, files)
			for i := range members {
				for si := range files {
					if members[i].Name == files[si] {
						members[i].Data = []byte(pptxSlideXMLTables(slides[si], slideTables[si]))
					}
				}
			}
			path := tmpFile(r, ".pptx", writeZip(members))
			c03OneReaderOf(r, "pptx", path)
			md, _, err := tabula.Open(path).ToMarkdown()
			var wantTables [][][]string
			for _, tbs := range slideTables {
				wantTables = append(wantTables, tbs...)
			}
			okP, whyP := err == nil, ""
			if err != nil {
				whyP = err.Error()
			} else {
				var blocks []string
				cur := ""
				for _, ln := range strings.Split(md, "\n") {
					if strings.HasPrefix(strings.TrimSpace(ln), "|") {
						cur += ln + "\n"
					} else if cur != "" {
						blocks = append(blocks, cur)
						cur = ""
					}
				}
				if cur != "" {
					blocks = append(blocks, cur)
				}
				if len(blocks) != len(wantTables) {
					okP, whyP = false, fmt.Sprintf("%d pipe tables in the Markdown, the slides hold %d tables", len(blocks), len(wantTables))
				}
				for bi := 0; okP && bi < len(blocks); bi++ {
					grid, ok := gfmTable(blocks[bi])
					want := wantTables[bi]
					if !ok || len(grid) != len(want) {
						okP, whyP = false, fmt.Sprintf("table %d reads back with %d rows (readable %v), it has %d", bi, len(grid), ok, len(want))
						break
					}
					for i := range want {
						for j := range want[i] {
							if j >= len(grid[i]) || strings.TrimSpace(grid[i][j]) != want[i][j] {
								okP, whyP = false, fmt.Sprintf("table %d cell (%d,%d) does not read back as %q", bi, i, j, want[i][j])
							}
						}
						if len(grid[i]) != len(want[i]) {
							okP, whyP = false, fmt.Sprintf("table %d row %d has %d cells, the table has %d columns", bi, i, len(grid[i]), len(want[i]))
						}
					}
				}
				for si := range slides {
					if strings.Count(md, fmt.Sprintf("qs%dz", si)) != 1 {
						okP, whyP = false, "a slide's text is missing from (or repeated in) the Markdown"
					}
				}
			}
			r.Check(okP, "document-tables:pptx", whyP, Bs(path))
		}
		// ---- slides: a numbered list with numbered sub-items and a bullet list with sub-items keep kind and depth
		{
			type li struct {
				lvl     int
				ordered bool
				text    string
			}
			items := []li{{0, true, "num one"}, {1, true, "num one a"}, {1, true, "num one b"}, {0, true, "num two"}, {2, true, "num deep"},
				{0, false, "dot one"}, {1, false, "dot one a"}, {0, false, "dot two"}}
			var body strings.Builder
			for _, it := range items {
				bu := `<a:buChar char="&#8226;"/>`
				if it.ordered {
					bu = `<a:buAutoNum type="arabicPeriod"/>`
				}
				fmt.Fprintf(&body, `<a:p><a:pPr lvl="%d">%s</a:pPr><a:r><a:t>%s</a:t></a:r></a:p>`, it.lvl, bu, it.text)
			}
			slide := `<?xml version="1.0" encoding="UTF-8" standalone="yes"?><p:sld xmlns:a="http://schemas.openxmlformats.org/drawingml/2006/main" xmlns:p="http://schemas.openxmlformats.org/presentationml/2006/main" xmlns:r="http://schemas.openxmlformats.org/officeDocument/2006/relationships"><p:cSld><p:spTree><p:nvGrpSpPr><p:cNvPr id="1" name=""/><p:cNvGrpSpPr/><p:nvPr/></p:nvGrpSpPr><p:grpSpPr/><p:sp><p:nvSpPr><p:cNvPr id="2" name="Content 1"/><p:cNvSpPr/><p:nvPr><p:ph idx="1"/></p:nvPr></p:nvSpPr><p:spPr/><p:txBody><a:bodyPr/>` + body.String() + `</p:txBody></p:sp></p:spTree></p:cSld></p:sld>`
			ms := mkPPTXSimple([]string{"placeholder"})
			for i := range ms {
				if strings.HasPrefix(ms[i].Name, "ppt/slides/") && strings.HasSuffix(ms[i].Name, ".xml") {
					ms[i].Data = []byte(slide)
				}
			}
			path := tmpFile(r, ".pptx", writeZip(ms))
			why := ""
			md, _, err := tabula.Open(path).ToMarkdown()
			if err != nil {
				why = err.Error()
			}
			lines := strings.Split(md, "\n")
			for _, it := range items {
				found := false
				for _, ln := range lines {
					if !strings.HasSuffix(strings.TrimSpace(ln), it.text) {
						continue
					}
					found = true
					t := strings.TrimLeft(ln, " \t")
					isNum := len(t) > 1 && t[0] >= '0' && t[0] <= '9' && strings.Contains(t[:4], ".")
					isDot := strings.HasPrefix(t, "- ") || strings.HasPrefix(t, "* ") || strings.HasPrefix(t, "+ ")
					if it.ordered && !isNum || !it.ordered && !isDot {
						why = fmt.Sprintf("item %q (ordered %v, level %d) is written %q: %q", it.text, it.ordered, it.lvl, ln, md)
					}
					if (len(ln)-len(t) > 0) != (it.lvl > 0) {
						why = fmt.Sprintf("item %q of level %d is written %q: %q", it.text, it.lvl, ln, md)
					}
				}
				if !found && why == "" {
					why = fmt.Sprintf("item %q is not in the Markdown: %q", it.text, md)
				}
			}
			r.Check(why == "", "document-lists:pptx", why, Bs(path))
		}
		// ---- books: chapters that end in a paragraph; no line of the Markdown may turn a paragraph into a heading
		// (a line of dashes or equals signs directly under text is a setext heading underline)
		{
			path := tmpFile(r, ".epub", writeZip(mkEPUBSimple([]string{"first chapter closing words", "second chapter closing words", "third chapter closing words"})))
			why := ""
			for _, view := range []string{"reader", "toplevel"} {
				var md string
				var err error
				if view == "reader" {
					var rd *epubdoc.Reader
					if rd, err = epubdoc.Open(path); err == nil {
						md, err = rd.Markdown()
						rd.Close()
					}
				} else {
					md, _, err = tabula.Open(path).ToMarkdown()
				}
				if err != nil {
					why = view + ": " + err.Error()
					continue
				}
				lines := strings.Split(md, "\n")
				for i := 1; i < len(lines); i++ {
					t := strings.TrimSpace(lines[i])
					if t != "" && (strings.Trim(t, "-") == "" || strings.Trim(t, "=") == "") && strings.TrimSpace(lines[i-1]) != "" {
						why = fmt.Sprintf("%s: the line %q stands directly under %q, which makes that text a heading: %q", view, t, lines[i-1], md)
					}
				}
				for k, w := range []string{"first chapter closing words", "second chapter closing words", "third chapter closing words"} {
					if strings.Count(md, w) != 1 {
						why = fmt.Sprintf("%s: the text of chapter %d is in the Markdown %d times", view, k+1, strings.Count(md, w))
					}
				}
			}
			r.Check(why == "", "document-setext:epub", why, Bs(path))
		}
		// ---- whole worksheets: the used range comes out as one pipe table, every cell where the sheet has it
		{
			type xc struct {
				col, row int
				text     string
			}
			shapes := map[string][]xc{
				"stamp-above-the-right-column":  {{2, 0, "stamp"}, {0, 1, "a2"}, {1, 1, "b2"}, {0, 2, "a3"}, {1, 2, "b3"}},
				"a-single-cell":                 {{1, 1, "only"}},
				"first-row-right-last-row-left": {{3, 0, "d1"}, {0, 3, "a4"}},
				"diagonal":                      {{0, 0, "p"}, {1, 1, "q"}, {2, 2, "r"}},
				"anti-diagonal":                 {{2, 0, "p"}, {1, 1, "q"}, {0, 2, "r"}},
				"full":                          {{0, 0, "h1"}, {1, 0, "h2"}, {0, 1, "x"}, {1, 1, "y"}},
			}
			var names []string
			for n := range shapes {
				names = append(names, n)
			}
			sort.Strings(names)
			for _, name := range names {
				cells := shapes[name]
				minC, minR, maxC, maxR := 1<<30, 1<<30, -1, -1
				byRow := map[int][]c17Cell{}
				for _, c := range cells {
					t := c.text
					byRow[c.row] = append(byRow[c.row], c17Cell{ref: refOf(c.col, c.row), t: "inlineStr", is: &t})
					if c.col < minC {
						minC = c.col
					}
					if c.col > maxC {
						maxC = c.col
					}
					if c.row < minR {
						minR = c.row
					}
					if c.row > maxR {
						maxR = c.row
					}
				}
				var rows []c17Row
				for rw := minR; rw <= maxR; rw++ {
					if cs, ok := byRow[rw]; ok {
						rows = append(rows, c17Row{r: rw + 1, cells: cs})
					}
				}
				path := tmpFile(r, ".xlsx", writeZip(c17WorkbookMembers([]c17Sheet{{name: "Sheet1", rows: rows}}, nil)))
				why := ""
				rd, err := xlsx.Open(path)
				if err != nil {
					why = "generated workbook does not open: " + err.Error()
				} else {
					md, err := rd.Markdown()
					rd.Close()
					var tbl strings.Builder
					for _, ln := range strings.Split(md, "\n") {
						if strings.HasPrefix(strings.TrimSpace(ln), "|") {
							tbl.WriteString(strings.TrimSpace(ln) + "\n")
						}
					}
					grid, ok := gfmTable(tbl.String())
					switch {
					case err != nil:
						why = "Markdown failed: " + err.Error()
					case !ok:
						why = fmt.Sprintf("no readable pipe table in %q", md)
					case len(grid) != maxR-minR+1 || len(grid[0]) != maxC-minC+1:
						why = fmt.Sprintf("the used range is %d rows x %d columns, the pipe table has %d x %d: %q", maxR-minR+1, maxC-minC+1, len(grid), len(grid[0]), md)
					default:
						for _, c := range cells {
							if got := strings.TrimSpace(grid[c.row-minR][c.col-minC]); got != c.text {
								why = fmt.Sprintf("cell %s holds %q, the table has %q there: %q", refOf(c.col, c.row), c.text, got, md)
							}
						}
					}
				}
				r.Check(why == "", "document-table:xlsx", "sheet "+name+": "+why, Bs(path))
			}
		}
		// ---- heading levels
		for lvl := -1; lvl <= 9; lvl++ {
			for off := -2; off <= 7; off++ {
				for mx := 0; mx <= 8; mx++ {
					c := &rag.Chunk{ID: "c", Text: "body"}
					c.Metadata.SectionTitle = "Title"
					c.Metadata.HeadingLevel = lvl
					opts := rag.DefaultMarkdownOptions()
					opts.HeadingLevelOffset = off
					opts.MaxHeadingLevel = mx
					md := c.ToMarkdownWithOptions(opts)
					got := 0
					for _, ln := range strings.Split(md, "\n") {
						if strings.HasPrefix(ln, "#") && strings.HasSuffix(ln, " Title") {
							got = len(ln) - len(strings.TrimLeft(ln, "#"))
						}
					}
					cv := L(I(6), I(lvl), I(off), I(mx))
					if lvl >= 0 {
						r.Case(cv, I(got), "heading:chunk", true)
					}
					if mx >= 1 && mx <= 6 && lvl >= 0 && lvl <= 6 {
						src := lvl
						if src == 0 {
							src = 2
						}
						want := src + off
						if want < 1 {
							want = 1
						}
						if want > mx {
							want = mx
						}
						r.Check(got == want && got >= 1 && got <= 6, "heading-level:chunk", fmt.Sprintf("level %d offset %d max %d rendered with %d '#'", lvl, off, mx, got), cv)
					}
				}
			}
		}
	}
}
