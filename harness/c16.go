package main

import (
	"fmt"
	"strings"
	"unicode/utf8"

	"github.com/tsawler/tabula"
	"github.com/tsawler/tabula/docx"
	"github.com/tsawler/tabula/model"
	"github.com/tsawler/tabula/odt"
)

// XML events shared with the Coq model (C16_Docs.v name codes).
type xtok struct {
	kind int // 0 start, 1 end, 2 text
	name int
	attr string
	text string
}

const (
	nP = 1 + iota
	nR
	nT
	nTab
	nBr
	nCr
	nSym
	nHyperlink
	nPPr
	nRPr
	nDel
	nIns
	nDelText
	nInstrText
	nDrawing
	nTbl
	nTr
	nTc
	nSdt
	nSdtContent
	nSdtPr
	nBody
	nSectPr
	nMoveFrom
	nPict
	nObject
	nChoice
	nTxbxContent
	nSmartTag
	nFldSimple
)
const (
	nSpan = 40 + iota
	nA
	nS
	nLineBreak
	nNote
	nAnnotation
	nAnnotationEnd
)

var c16Local = map[int]string{
	nP: "p", nR: "r", nT: "t", nTab: "tab", nBr: "br", nCr: "cr", nSym: "sym", nHyperlink: "hyperlink",
	nPPr: "pPr", nRPr: "rPr", nDel: "del", nIns: "ins", nDelText: "delText", nInstrText: "instrText",
	nDrawing: "drawing", nTbl: "tbl", nTr: "tr", nTc: "tc", nSdt: "sdt", nSdtContent: "sdtContent",
	nSdtPr: "sdtPr", nBody: "body", nSectPr: "sectPr", nMoveFrom: "moveFrom", nPict: "pict", nObject: "object",
	nChoice: "Choice", nTxbxContent: "txbxContent", nSmartTag: "smartTag", nFldSimple: "fldSimple",
	nSpan: "span", nA: "a", nS: "s", nLineBreak: "line-break", nNote: "note", nAnnotation: "annotation",
	nAnnotationEnd: "annotation-end",
	60:             "bookmarkStart", 61: "proofErr", 62: "b", 63: "jc", 64: "note-citation", 65: "note-body",
	66: "bookmark", 67: "soft-page-break", 68: "creator", 69: "tcPr", 70: "tblPr", 71: "alias",
}

func c16Name(code int, isODT bool) string {
	l, ok := c16Local[code]
	if !ok {
		l = "x"
	}
	if isODT {
		return "text:" + l
	}
	return "w:" + l
}

func tokXML(ts []xtok, isODT bool) string {
	var b strings.Builder
	for _, t := range ts {
		switch t.kind {
		case 0:
			b.WriteString("<" + c16Name(t.name, isODT))
			switch t.name {
			case nBr:
				if t.attr != "" {
					b.WriteString(` w:type="` + xmlEsc(t.attr) + `"`)
				}
			case nSym:
				b.WriteString(` w:font="Symbol" w:char="` + xmlEsc(t.attr) + `"`)
			case nS:
				if t.attr != "" {
					b.WriteString(` text:c="` + xmlEsc(t.attr) + `"`)
				}
			case nT:
				b.WriteString(` xml:space="preserve"`)
			}
			b.WriteString(">")
		case 1:
			b.WriteString("</" + c16Name(t.name, isODT) + ">")
		case 2:
			b.WriteString(xmlEsc(t.text))
		}
	}
	return b.String()
}

func tokV(ts []xtok) V {
	v := VL{}
	for _, t := range ts {
		switch t.kind {
		case 0:
			v = append(v, L(I(0), I(t.name), Bs(t.attr)))
		case 1:
			v = append(v, L(I(1), I(t.name)))
		default:
			v = append(v, L(I(2), Bs(t.text)))
		}
	}
	return v
}

func ts(name int) xtok            { return xtok{kind: 0, name: name} }
func tsa(name int, a string) xtok { return xtok{kind: 0, name: name, attr: a} }
func te(name int) xtok            { return xtok{kind: 1, name: name} }
func tt(s string) xtok            { return xtok{kind: 2, text: s} }

type c16gen struct {
	rng *RNG
	n   int
}

// word returns a fresh anchor word: never a substring of another anchor.
func (g *c16gen) word() string {
	g.n++
	extra := []string{"", "", "", " & co", " <b>", "é", "中文", " x "}
	return fmt.Sprintf("q%dz%s", g.n, extra[g.rng.Intn(len(extra))])
}

func symText(hex string) string {
	var code int64
	if hex == "" || len(hex) > 7 {
		return ""
	}
	for _, c := range hex {
		var d int64
		switch {
		case c >= '0' && c <= '9':
			d = int64(c - '0')
		case c >= 'a' && c <= 'f':
			d = int64(c-'a') + 10
		case c >= 'A' && c <= 'F':
			d = int64(c-'A') + 10
		default:
			return ""
		}
		code = code*16 + d
	}
	if code <= 0 || code > 0x10FFFF {
		return ""
	}
	if code >= 0xD800 && code <= 0xDFFF {
		return "�"
	}
	var buf [4]byte
	n := utf8.EncodeRune(buf[:], rune(code))
	return string(buf[:n])
}

// docxRunChildren: the children of one run, several kinds mixed in source order.
func (g *c16gen) docxRunChildren(k int) ([]xtok, string) {
	var out []xtok
	var want strings.Builder
	for i := 0; i < k; i++ {
		switch g.rng.Intn(8) {
		case 0, 1, 2:
			w := g.word()
			out = append(out, ts(nT), tt(w), te(nT))
			want.WriteString(w)
		case 3:
			out = append(out, ts(nTab), te(nTab))
			want.WriteString("\t")
		case 4:
			if g.rng.Chance(1, 3) {
				out = append(out, tsa(nBr, "page"), te(nBr))
				want.WriteString("\n\n")
			} else {
				a := []string{"", "textWrapping", "column"}[g.rng.Intn(3)]
				out = append(out, tsa(nBr, a), te(nBr))
				want.WriteString("\n")
			}
		case 5:
			out = append(out, ts(nCr), te(nCr))
			want.WriteString("\n")
		case 6:
			hex := []string{"F0B7", "41", "263a", "1F600", "0", "110000", "D800", "zz", "00e9"}[g.rng.Intn(9)]
			out = append(out, tsa(nSym, hex), te(nSym))
			want.WriteString(symText(hex))
		case 7:
			// an empty text element
			out = append(out, ts(nT), te(nT))
		}
	}
	return out, want.String()
}

func (g *c16gen) docxRun() ([]xtok, string) {
	out := []xtok{ts(nR)}
	if g.rng.Chance(1, 3) {
		out = append(out, ts(nRPr), ts(62), te(62))
		if g.rng.Chance(1, 4) {
			// property elements never carry paragraph text, whatever they hold
			out = append(out, ts(nT), tt("notext"), te(nT))
		}
		out = append(out, te(nRPr))
	}
	k := 1
	if g.rng.Chance(1, 2) {
		k = g.rng.Range(2, 4)
	}
	ch, want := g.docxRunChildren(k)
	out = append(out, ch...)
	out = append(out, te(nR))
	return out, want
}

// docxInline: the inner XML events of a paragraph and the text its author sees.
func (g *c16gen) docxInline(items int) ([]xtok, string) {
	var out []xtok
	var want strings.Builder
	if g.rng.Chance(1, 4) {
		out = append(out, ts(nPPr), ts(63), te(63), te(nPPr))
	}
	for i := 0; i < items; i++ {
		if g.rng.Chance(1, 6) {
			out = append(out, tt("\n   "))
		}
		switch g.rng.Intn(12) {
		default:
			r, w := g.docxRun()
			out = append(out, r...)
			want.WriteString(w)
		case 5, 6:
			wrap := []int{nHyperlink, nIns, nSmartTag, nFldSimple}[g.rng.Intn(4)]
			out = append(out, ts(wrap))
			for j := g.rng.Range(1, 2); j > 0; j-- {
				r, w := g.docxRun()
				out = append(out, r...)
				want.WriteString(w)
			}
			out = append(out, te(wrap))
		case 7:
			out = append(out, ts(nSdt), ts(nSdtPr), ts(71), te(71), te(nSdtPr), ts(nSdtContent))
			r, w := g.docxRun()
			out = append(out, r...)
			want.WriteString(w)
			out = append(out, te(nSdtContent), te(nSdt))
		case 8:
			wrap := []int{nDel, nMoveFrom}[g.rng.Intn(2)]
			out = append(out, ts(wrap), ts(nR), ts(nDelText), tt("gone"), te(nDelText), te(nR), te(wrap))
		case 9:
			out = append(out, ts(nR), ts(nInstrText), tt(" PAGE "), te(nInstrText), te(nR))
		case 10:
			cont := []int{nDrawing, nPict, nObject}[g.rng.Intn(3)]
			out = append(out, ts(nR), ts(cont), ts(0), ts(nTxbxContent), ts(nP), ts(nR), ts(nT), tt("boxed"), te(nT), te(nR), te(nP), te(nTxbxContent), te(0), te(cont), te(nR))
		case 11:
			out = append(out, ts(60), te(60), ts(61), te(61))
		}
	}
	return out, want.String()
}

func (g *c16gen) odtInline(items int) ([]xtok, string) {
	var out []xtok
	var want strings.Builder
	var span func(depth int)
	piece := func() {
		switch g.rng.Intn(6) {
		case 0, 1, 2:
			w := g.word()
			out = append(out, tt(w))
			want.WriteString(w)
		case 3:
			out = append(out, ts(nTab), te(nTab))
			want.WriteString("\t")
		case 4:
			out = append(out, ts(nLineBreak), te(nLineBreak))
			want.WriteString("\n")
		case 5:
			a := []string{"", "1", "3", "0", "abc", "2000", "12"}[g.rng.Intn(7)]
			out = append(out, tsa(nS, a), te(nS))
			n := 1
			switch a {
			case "3":
				n = 3
			case "2000":
				n = 1000
			case "12":
				n = 12
			}
			want.WriteString(strings.Repeat(" ", n))
		}
	}
	span = func(depth int) {
		name := []int{nSpan, nA}[g.rng.Intn(2)]
		out = append(out, ts(name))
		for j := g.rng.Range(1, 3); j > 0; j-- {
			if depth < 2 && g.rng.Chance(1, 4) {
				span(depth + 1)
			} else {
				piece()
			}
		}
		out = append(out, te(name))
	}
	for i := 0; i < items; i++ {
		switch g.rng.Intn(10) {
		default:
			piece()
		case 5, 6, 7:
			span(0)
		case 8:
			if g.rng.Bool() {
				out = append(out, ts(nNote), ts(64), tt("1"), te(64), ts(65), ts(nP), tt("footnote body"), ts(nSpan), tt("x"), te(nSpan), te(nP), te(65), te(nNote))
			} else {
				out = append(out, ts(nAnnotation), ts(68), tt("someone"), te(68), ts(nP), tt("a comment"), te(nP), te(nAnnotation))
			}
		case 9:
			out = append(out, ts(66), te(66), ts(67), te(67))
		}
	}
	return out, want.String()
}

// ---- body streams for the DOCX order pass

type bodyItem struct {
	kind int // 0 p, 1 tbl, 2 sdt wrapping p/tbl, 3 other
	sub  []int
}

func (g *c16gen) noise(depth int) []xtok {
	var out []xtok
	names := []int{nP, nR, nT, nTbl, nTr, nTc, nSdt, nSdtContent, nSdtPr, nPPr, 0, 60, nSectPr, nHyperlink}
	for j := g.rng.Intn(4); j > 0; j-- {
		n := names[g.rng.Intn(len(names))]
		out = append(out, ts(n))
		if depth < 3 && g.rng.Chance(2, 3) {
			out = append(out, g.noise(depth+1)...)
		} else if g.rng.Chance(1, 3) {
			out = append(out, tt(g.word()))
		}
		out = append(out, te(n))
	}
	return out
}

func (g *c16gen) tableToks() []xtok {
	out := []xtok{ts(nTbl), ts(70), te(70)}
	for r := g.rng.Range(1, 2); r > 0; r-- {
		out = append(out, ts(nTr))
		for c := g.rng.Range(1, 2); c > 0; c-- {
			out = append(out, ts(nTc), ts(69), te(69))
			for p := g.rng.Range(1, 3); p > 0; p-- {
				out = append(out, ts(nP), ts(nR), ts(nT), tt(g.word()), te(nT), te(nR), te(nP))
			}
			if g.rng.Chance(1, 4) {
				out = append(out, g.tableToks()...)
				out = append(out, ts(nP), te(nP))
			}
			out = append(out, te(nTc))
		}
		out = append(out, te(nTr))
	}
	return append(out, te(nTbl))
}

func (g *c16gen) bodyStream() ([]xtok, [][2]int) {
	out := []xtok{ts(nBody)}
	var want [][2]int
	cnt := [4]int{}
	emit := func(kind int, inSdt bool) {
		if kind == 0 {
			out = append(out, ts(nP))
			out = append(out, g.noise(1)...)
			out = append(out, te(nP))
		} else {
			out = append(out, g.tableToks()...)
		}
		slot := kind
		if inSdt {
			slot += 2
		}
		want = append(want, [2]int{slot, cnt[slot]})
		cnt[slot]++
	}
	for i := g.rng.Range(0, 8); i > 0; i-- {
		switch g.rng.Intn(8) {
		case 0, 1, 2:
			emit(0, false)
		case 3, 4:
			emit(1, false)
		case 5, 6:
			out = append(out, ts(nSdt), ts(nSdtPr))
			out = append(out, g.noise(2)...)
			out = append(out, te(nSdtPr), ts(nSdtContent))
			for j := g.rng.Range(0, 3); j > 0; j-- {
				emit(g.rng.Intn(2), true)
			}
			out = append(out, te(nSdtContent), te(nSdt))
		case 7:
			n := []int{nSectPr, 60, 0}[g.rng.Intn(3)]
			out = append(out, ts(n))
			out = append(out, g.noise(1)...)
			out = append(out, te(n))
		}
	}
	out = append(out, te(nBody))
	return out, want
}

// ---- tables

type c16cell struct {
	paras []string
	span  int
	cont  bool // docx continuation cell
	rows  int
	r, c  int // origin in the authored grid
}

// genTable lays cells out on an R x C grid by occupancy and returns the DOCX
// rows (with continuation cells), the ODT rows (origins only) and the origins.
func (g *c16gen) genTable() (dx [][]c16cell, od [][]c16cell, R, C int) {
	R, C = g.rng.Range(1, 4), g.rng.Range(1, 5)
	type area struct{ w, left int }
	occ := make([][]*area, R)
	for i := range occ {
		occ[i] = make([]*area, C)
	}
	for r := 0; r < R; r++ {
		var drow, orow []c16cell
		for c := 0; c < C; {
			if a := occ[r][c]; a != nil {
				drow = append(drow, c16cell{span: a.w, cont: true, rows: 1, r: r, c: c})
				c += a.w
				continue
			}
			w := 1
			for w < 3 && c+w < C && occ[r][c+w] == nil && g.rng.Chance(1, 3) {
				w++
			}
			h := 1
			for r+h < R && g.rng.Chance(1, 3) {
				h++
			}
			var paras []string
			for p := g.rng.Intn(4); p > 0; p-- {
				if g.rng.Chance(1, 5) {
					paras = append(paras, "")
				} else {
					paras = append(paras, g.word())
				}
			}
			cell := c16cell{paras: paras, span: w, rows: h, r: r, c: c}
			for k := 1; k < h; k++ {
				a := &area{w: w}
				for j := 0; j < w; j++ {
					occ[r+k][c+j] = a
				}
			}
			dcell := cell
			dcell.rows = 1
			drow = append(drow, dcell)
			orow = append(orow, cell)
			c += w
		}
		dx = append(dx, drow)
		od = append(od, orow)
	}
	return
}

func cellText(paras []string) string {
	var keep []string
	for _, p := range paras {
		if p != "" {
			keep = append(keep, p)
		}
	}
	return strings.Join(keep, "\n")
}

func cellsV(rows [][]c16cell) V {
	v := VL{}
	for _, row := range rows {
		rv := VL{}
		for _, c := range row {
			rv = append(rv, L(bsList(c.paras), I(c.span), Bool(c.cont), I(c.rows)))
		}
		v = append(v, rv)
	}
	return v
}

func wpRows(rows [][]c16cell, isDocx bool) [][]wpCell {
	var out [][]wpCell
	for ri, row := range rows {
		var wr []wpCell
		for _, c := range row {
			w := wpCell{paras: c.paras, span: c.span, rows: c.rows}
			if isDocx {
				w.rows = 1
				if c.cont {
					w.vmerge = 2
				} else if ri+1 < len(rows) {
					// a restart marker when the next row continues this column
					col := c.c
					for _, n := range rows[ri+1] {
						if n.cont && n.c == col {
							w.vmerge = 1
						}
					}
				}
			}
			wr = append(wr, w)
		}
		out = append(out, wr)
	}
	return out
}

// ---- observing a document

func c16Elements(doc *model.Document) V {
	v := VL{}
	for _, p := range doc.Pages {
		for _, e := range p.Elements {
			switch x := e.(type) {
			case *model.Paragraph:
				v = append(v, L(I(0), Bs(x.Text)))
			case *model.Heading:
				v = append(v, L(I(1), I(x.Level), Bs(x.Text)))
			case *model.List:
				items := VL{}
				for _, it := range x.Items {
					items = append(items, L(I(it.Level), Bs(it.Text)))
				}
				v = append(v, L(I(2), Bool(x.Ordered), items))
			case *model.Table:
				rows := VL{}
				for _, row := range x.Rows {
					rv := VL{}
					for _, c := range row {
						rv = append(rv, L(Bs(c.Text), I(c.RowSpan), I(c.ColSpan)))
					}
					rows = append(rows, rv)
				}
				v = append(v, L(I(3), rows))
			default:
				v = append(v, L(I(9)))
			}
		}
	}
	return v
}

// inOrder reports whether the anchors occur in s in this order, each once.
func inOrder(s string, anchors []string) (bool, string) {
	pos := 0
	for _, a := range anchors {
		i := strings.Index(s[pos:], a)
		if i < 0 {
			if strings.Contains(s, a) {
				return false, "out of order: " + a
			}
			return false, "missing: " + a
		}
		pos += i + len(a)
		if strings.Count(s, a) != 1 {
			return false, "repeated: " + a
		}
	}
	return true, ""
}

func anchorsOf(s string) []string {
	// the q<N>z words of a text, in order
	var out []string
	for i := 0; i < len(s); i++ {
		if s[i] == 'q' {
			j := i + 1
			for j < len(s) && s[j] >= '0' && s[j] <= '9' {
				j++
			}
			if j > i+1 && j < len(s) && s[j] == 'z' {
				out = append(out, s[i:j+1])
				i = j
			}
		}
	}
	return out
}

func init() {
	props["C16"] = func(r *Run, rng *RNG) {
		thorough := r.Tier == "thorough"
		r.Rule = "(a) DOCX paragraph inline XML: 1..8 items of runs (text, tab, break, carriage return, symbol, several per run), hyperlink/ins/smartTag/fldSimple/inline-sdt wrappers, deleted text, field instructions, drawings with text boxes, run/paragraph properties, whitespace between runs; (b) ODT inline XML: text, nested spans and links, tabs, line breaks, text:s with valid and invalid counts, notes, annotations, bookmarks; (c) DOCX body streams: paragraphs, tables with nested paragraphs and tables, block-level content controls, other body children, with random well-nested noise inside every element; (d) style graphs of 1..7 styles with parents that are defined, undefined, built-in heading ids, self-referential or cyclic, and heading markers by outline level or name; (e) whole DOCX and ODT packages of 0..10 blocks (paragraphs, headings, list items of 4 lists at levels 0..3, tables laid out by occupancy with column spans 1..3 and row spans, multi-paragraph and empty cells, empty paragraphs) with optional header and footer parts. non-trivial = at least 3 inline items / 3 body items / 3 styles / 3 blocks"
		g := &c16gen{rng: rng}
		n := 250
		if thorough {
			n = 6000
		}
		// (a) docx inline
		for it := 0; it < n; it++ {
			k := rng.Range(1, 8)
			toks, want := g.docxInline(k)
			got := docx.VerifParagraphInlineText(tokXML(toks, false))
			cv := L(I(0), tokV(toks))
			r.Case(cv, Bs(got), "docx-inline", k >= 3)
			r.Check(got == want, "inline-order:docx", fmt.Sprintf("DOCX paragraph text %q, authored %q", got, want), cv)
		}
		// (b) odt inline
		for it := 0; it < n; it++ {
			k := rng.Range(1, 8)
			toks, want := g.odtInline(k)
			got := odt.VerifInlineText(tokXML(toks, true))
			cv := L(I(1), tokV(toks))
			r.Case(cv, Bs(got), "odt-inline", k >= 3)
			r.Check(got == want, "inline-order:odt", fmt.Sprintf("ODT paragraph text %q, authored %q", got, want), cv)
		}
		// (c) docx body order
		for it := 0; it < n; it++ {
			toks, want := g.bodyStream()
			xmlDoc := `<?xml version="1.0" encoding="UTF-8"?><w:document xmlns:w="http://schemas.openxmlformats.org/wordprocessingml/2006/main">` + tokXML(toks, false) + `</w:document>`
			got, err := docx.VerifBodyOrder([]byte(xmlDoc))
			cnt := docx.VerifBodyCounts([]byte(xmlDoc))
			cv := L(I(2), tokV(toks))
			ov := VL{}
			for _, p := range got {
				ov = append(ov, L(I(p[0]), I(p[1])))
			}
			r.Case(cv, L(L(I(cnt[0]), I(cnt[1]), I(cnt[2]), I(cnt[3])), ov), "docx-body", len(want) >= 3)
			ok := err == nil && len(got) == len(want)
			for i := range want {
				if !ok {
					break
				}
				ok = got[i] == want[i]
			}
			r.Check(ok, "body-order:docx", fmt.Sprintf("body elements matched as %v, authored %v (err %v)", got, want, err), cv)
		}
		// (d) style graphs
		nd := n / 5
		for it := 0; it < nd; it++ {
			ns := rng.Range(1, 7)
			type st struct{ parent, mark, how int }
			styles := make([]st, ns)
			for i := range styles {
				p := -1
				switch rng.Intn(6) {
				case 0:
				case 1, 2, 3:
					p = rng.Intn(ns)
				case 4:
					p = ns + rng.Intn(3)
				case 5:
					p = 100 + rng.Range(1, 9)
				}
				m := 0
				if rng.Chance(1, 3) {
					m = rng.Range(1, 9)
				}
				styles[i] = st{p, m, rng.Intn(2)}
			}
			var sx strings.Builder
			sx.WriteString(`<?xml version="1.0" encoding="UTF-8" standalone="yes"?><w:styles xmlns:w="http://schemas.openxmlformats.org/wordprocessingml/2006/main">`)
			sv := VL{}
			for i, s := range styles {
				name := fmt.Sprintf("Plain %c", 'A'+i)
				if s.mark > 0 && s.how == 1 {
					name = fmt.Sprintf("Heading %d", s.mark)
				}
				fmt.Fprintf(&sx, `<w:style w:type="paragraph" w:styleId="St%d"><w:name w:val="%s"/>`, i, name)
				if s.parent >= 100 {
					fmt.Fprintf(&sx, `<w:basedOn w:val="Heading%d"/>`, s.parent-100)
				} else if s.parent >= 0 {
					fmt.Fprintf(&sx, `<w:basedOn w:val="St%d"/>`, s.parent)
				}
				if s.mark > 0 && s.how == 0 {
					fmt.Fprintf(&sx, `<w:pPr><w:outlineLvl w:val="%d"/></w:pPr>`, s.mark-1)
				}
				sx.WriteString(`</w:style>`)
				sv = append(sv, L(I(s.parent), I(s.mark)))
			}
			sx.WriteString(`</w:styles>`)
			var blocks []wpBlock
			for i := range styles {
				blocks = append(blocks, wpBlock{kind: 0, useRaw: true, rawDocx: fmt.Sprintf(`<w:pPr><w:pStyle w:val="St%d"/></w:pPr><w:r><w:t>styled%dend</w:t></w:r>`, i, i)})
			}
			ms := mkDOCXBlocks(blocks, "", "")
			for i := range ms {
				if ms[i].Name == "word/styles.xml" {
					ms[i].Data = []byte(sx.String())
				}
			}
			path := tmpFile(r, ".docx", writeZip(ms))
			doc, _, err := tabula.Open(path).Document()
			cv := L(I(3), sv)
			if err != nil {
				r.Check(false, "style-doc-open", fmt.Sprintf("generated document does not open: %v", err), cv)
				continue
			}
			levels := make([]int, ns)
			for _, p := range doc.Pages {
				for _, e := range p.Elements {
					if h, ok := e.(*model.Heading); ok {
						var idx int
						if _, err := fmt.Sscanf(h.Text, "styled%dend", &idx); err == nil && idx < ns {
							levels[idx] = h.Level
						}
					}
				}
			}
			lv := VL{}
			for _, l := range levels {
				lv = append(lv, I(l))
			}
			r.Case(cv, lv, "style-graph", ns >= 3)
			// the nearest marked ancestor decides, walking parents until a repeat
			for i := range styles {
				want, cur, seen := 0, i, map[int]bool{}
				for cur >= 0 && !seen[cur] {
					seen[cur] = true
					if cur >= 100 {
						want = cur - 100
						break
					}
					if cur >= ns {
						break
					}
					if styles[cur].mark > 0 {
						want = styles[cur].mark
						break
					}
					cur = styles[cur].parent
				}
				r.Check(levels[i] == want, "heading-inherit:docx", fmt.Sprintf("style St%d resolves to heading level %d, authored %d", i, levels[i], want), cv)
			}
		}
		// (e) whole documents
		ne := n * 2 / 3
		for it := 0; it < ne; it++ {
			nb := rng.Range(0, 10)
			var dblocks, oblocks []wpBlock
			dv, ov := VL{}, VL{}
			var anchors []string
			type exp struct {
				kind, level int
				text        [2]string
				listID      int
				cells       []c16cell
				R, C        int
			}
			var exps []exp
			for len(dblocks) < nb {
				switch rng.Intn(7) {
				case 0, 1, 2:
					dt, dw := g.docxInline(rng.Range(0, 4))
					ot, ow := g.odtInline(rng.Range(0, 4))
					if rng.Chance(1, 8) {
						dt, dw, ot, ow = nil, "", nil, ""
					}
					pvia := 0
					if rng.Chance(1, 3) {
						// in the custom body style: the writer puts the paragraph properties itself
						pvia = 3
						for len(dt) > 0 && dt[0].name == nPPr {
							dt = dt[4:]
						}
					}
					dblocks = append(dblocks, wpBlock{kind: 0, via: pvia, useRaw: true, rawDocx: tokXML(dt, false)})
					oblocks = append(oblocks, wpBlock{kind: 0, useRaw: true, rawOdt: tokXML(ot, true)})
					dv = append(dv, L(I(0), tokV(dt)))
					ov = append(ov, L(I(0), tokV(ot)))
					exps = append(exps, exp{kind: 0, text: [2]string{dw, ow}})
				case 3:
					lvl, via := rng.Range(1, 9), rng.Intn(4)
					dt, dw := g.docxInline(rng.Range(1, 3))
					ot, ow := g.odtInline(rng.Range(1, 3))
					// the docx writer puts pPr first itself
					for len(dt) > 0 && dt[0].name == nPPr {
						dt = dt[4:]
					}
					dblocks = append(dblocks, wpBlock{kind: 1, level: lvl, via: via, useRaw: true, rawDocx: tokXML(dt, false)})
					oblocks = append(oblocks, wpBlock{kind: 1, level: lvl, via: via, useRaw: true, rawOdt: tokXML(ot, true)})
					dv = append(dv, L(I(1), I(lvl), tokV(dt)))
					ov = append(ov, L(I(1), I(lvl), tokV(ot)))
					exps = append(exps, exp{kind: 1, level: lvl, text: [2]string{dw, ow}})
				case 4, 5:
					id := rng.Range(1, 4)
					lvl := 0
					for k := rng.Range(1, 4); k > 0 && len(dblocks) < nb; k-- {
						dt, dw := g.docxInline(rng.Range(1, 2))
						ot, ow := g.odtInline(rng.Range(1, 2))
						for len(dt) > 0 && dt[0].name == nPPr {
							dt = dt[4:]
						}
						dblocks = append(dblocks, wpBlock{kind: 2, level: lvl, listID: id, useRaw: true, rawDocx: tokXML(dt, false)})
						oblocks = append(oblocks, wpBlock{kind: 2, level: lvl, listID: id, useRaw: true, rawOdt: tokXML(ot, true)})
						dv = append(dv, L(I(2), I(id), Bool(id%2 == 0), I(lvl), tokV(dt)))
						ov = append(ov, L(I(2), I(id), Bool(id%2 == 0), I(lvl), tokV(ot)))
						exps = append(exps, exp{kind: 2, level: lvl, listID: id, text: [2]string{dw, ow}})
						switch rng.Intn(3) {
						case 0:
							if lvl < 3 {
								lvl++
							}
						case 1:
							if lvl > 0 {
								lvl -= 1 + rng.Intn(lvl)
							}
						}
					}
				case 6:
					dx, od, R, C := g.genTable()
					dblocks = append(dblocks, wpBlock{kind: 3, table: wpRows(dx, true)})
					oblocks = append(oblocks, wpBlock{kind: 3, table: wpRows(od, false)})
					dv = append(dv, L(I(3), I(C), cellsV(dx)))
					ov = append(ov, L(I(3), I(C), cellsV(od)))
					var cells []c16cell
					for _, row := range od {
						cells = append(cells, row...)
					}
					exps = append(exps, exp{kind: 3, cells: cells, R: R, C: C})
				}
			}
			header, footer := "", ""
			if rng.Bool() {
				header = "HDRq0zLEAK"
			}
			if rng.Bool() {
				footer = "FTRq0zLEAK"
			}
			for f := 0; f < 2; f++ {
				var path string
				var cv V
				name := "docx"
				if f == 0 {
					path = tmpFile(r, ".docx", writeZip(mkDOCXBlocks(dblocks, header, footer)))
					cv = L(I(4), I(0), dv)
				} else {
					name = "odt"
					path = tmpFile(r, ".odt", writeZip(mkODTBlocksHF(oblocks, header, footer)))
					cv = L(I(4), I(1), ov)
				}
				doc, _, err := tabula.Open(path).Document()
				if err != nil {
					r.Case(cv, L(I(-2)), "doc:"+name, false)
					r.Check(false, "doc-open:"+name, fmt.Sprintf("generated %s does not open: %v", name, err), cv)
					continue
				}
				r.Case(cv, c16Elements(doc), "doc:"+name, nb >= 3)
				text, _, e1 := tabula.Open(path).Text()
				md, _, e2 := tabula.Open(path).ToMarkdown()
				r.Check(e1 == nil && e2 == nil, "doc-text-error:"+name, fmt.Sprintf("Text/ToMarkdown failed: %v %v", e1, e2), cv)
				// the same three views from ONE open reader, the document model last: rendering text must not change it
				{
					var doc2 *model.Document
					var t2, m2 string
					var e3 error
					if f == 0 {
						if rd, err := docx.Open(path); err == nil {
							t2, _ = rd.Text()
							m2, _ = rd.Markdown()
							t2b, _ := rd.Text()
							doc2, e3 = rd.Document()
							if t2b != t2 {
								e3 = fmt.Errorf("Text() differs the second time")
							}
							rd.Close()
						} else {
							e3 = err
						}
					} else {
						if rd, err := odt.Open(path); err == nil {
							t2, _ = rd.Text()
							m2, _ = rd.Markdown()
							t2b, _ := rd.Text()
							doc2, e3 = rd.Document()
							if t2b != t2 {
								e3 = fmt.Errorf("Text() differs the second time")
							}
							rd.Close()
						} else {
							e3 = err
						}
					}
					same := e3 == nil && doc2 != nil && Str(c16Elements(doc2)) == Str(c16Elements(doc)) && t2 == text
					_ = m2
					r.Check(same, "one-reader:"+name, fmt.Sprintf("Text, Markdown, Text, Document on one open %s reader: the document model or the text differs from a fresh reader's (%v)", name, e3), cv)
				}
				// body order: every authored anchor once, in order, in all three views
				anchors = anchors[:0]
				for _, e := range exps {
					if e.kind == 3 {
						for _, c := range e.cells {
							anchors = append(anchors, anchorsOf(strings.Join(c.paras, " "))...)
						}
					} else {
						anchors = append(anchors, anchorsOf(e.text[f])...)
					}
				}
				var flat strings.Builder
				for _, p := range doc.Pages {
					for _, e := range p.Elements {
						switch x := e.(type) {
						case *model.Paragraph:
							flat.WriteString(x.Text + "\n")
						case *model.Heading:
							flat.WriteString(x.Text + "\n")
						case *model.List:
							for _, i := range x.Items {
								flat.WriteString(i.Text + "\n")
							}
						case *model.Table:
							for _, row := range x.Rows {
								for _, c := range row {
									flat.WriteString(c.Text + "\n")
								}
							}
						}
					}
				}
				for vi, view := range []string{text, md, flat.String()} {
					ok, why := inOrder(view, anchors)
					r.Check(ok, fmt.Sprintf("doc-order:%s:%s", name, []string{"text", "markdown", "model"}[vi]), why, cv)
					r.Check(!strings.Contains(view, "q0zLEAK"), "header-leak:"+name, "header or footer text appears in the body output", cv)
				}
				// structure in the model: walk the elements against the authored blocks
				var els []model.Element
				for _, p := range doc.Pages {
					els = append(els, p.Elements...)
				}
				ei, li := 0, 0
				good, why := true, ""
				// empty paragraphs leave no element and do not end a list
				var fexps []exp
				for _, e := range exps {
					if e.kind != 3 && e.text[f] == "" {
						continue
					}
					fexps = append(fexps, e)
				}
				fail := func(s string) {
					if good {
						good, why = false, s
					}
				}
				for bi, e := range fexps {
					if !good {
						break
					}
					switch e.kind {
					case 0, 1:
						li = 0
						if e.text[f] == "" {
							continue
						}
						if ei >= len(els) {
							fail(fmt.Sprintf("block %d missing", bi))
							continue
						}
						if e.kind == 0 {
							p, ok := els[ei].(*model.Paragraph)
							if !ok || p.Text != e.text[f] {
								fail(fmt.Sprintf("block %d is not the authored paragraph", bi))
							}
						} else {
							h, ok := els[ei].(*model.Heading)
							if !ok || h.Text != e.text[f] || h.Level != e.level {
								fail(fmt.Sprintf("block %d is not the authored level-%d heading", bi, e.level))
							}
						}
						ei++
					case 2:
						if e.text[f] == "" {
							continue
						}
						if ei >= len(els) {
							fail(fmt.Sprintf("block %d missing", bi))
							continue
						}
						l, ok := els[ei].(*model.List)
						if !ok || li >= len(l.Items) || l.Items[li].Text != e.text[f] || l.Items[li].Level != e.level || l.Ordered != (e.listID%2 == 0) {
							fail(fmt.Sprintf("block %d is not the authored list item (list %d level %d)", bi, e.listID, e.level))
							continue
						}
						li++
						// the list ends when the next block is not an item of the same list
						last := bi+1 >= len(fexps) || fexps[bi+1].kind != 2 || fexps[bi+1].listID != e.listID
						if last {
							if li != len(l.Items) {
								fail(fmt.Sprintf("list ending at block %d has %d items, authored %d", bi, len(l.Items), li))
							}
							ei++
							li = 0
						}
					case 3:
						li = 0
						if ei >= len(els) {
							fail(fmt.Sprintf("block %d missing", bi))
							continue
						}
						t, ok := els[ei].(*model.Table)
						if !ok || t.RowCount() != e.R || t.ColCount() != e.C {
							fail(fmt.Sprintf("block %d is not the authored %dx%d table", bi, e.R, e.C))
							continue
						}
						origin := map[[2]int]bool{}
						for _, c := range e.cells {
							origin[[2]int{c.r, c.c}] = true
							got := t.Rows[c.r][c.c]
							if got.Text != cellText(c.paras) || got.ColSpan != c.span || got.RowSpan != c.rows {
								fail(fmt.Sprintf("table block %d cell (%d,%d): %q %dx%d, authored %q %dx%d", bi, c.r, c.c, got.Text, got.RowSpan, got.ColSpan, cellText(c.paras), c.rows, c.span))
							}
						}
						for ri := range t.Rows {
							for ci := range t.Rows[ri] {
								if !origin[[2]int{ri, ci}] && t.Rows[ri][ci].Text != "" {
									fail(fmt.Sprintf("table block %d has text in covered cell (%d,%d)", bi, ri, ci))
								}
							}
						}
						ei++
					}
				}
				if good && ei != len(els) {
					fail(fmt.Sprintf("%d extra elements", len(els)-ei))
				}
				r.Check(good, "doc-structure:"+name, why, cv)
				// Markdown structure: heading marks and list indentation
				lines := strings.Split(md, "\n")
				for _, e := range exps {
					a := anchorsOf(e.text[f])
					if len(a) == 0 || strings.ContainsAny(e.text[f], "\n") {
						continue
					}
					for _, ln := range lines {
						if !strings.Contains(ln, a[0]) {
							continue
						}
						switch e.kind {
						case 1:
							lv := e.level
							if lv > 6 {
								lv = 6
							}
							r.Check(strings.HasPrefix(ln, strings.Repeat("#", lv)+" "), "md-heading:"+name, fmt.Sprintf("level-%d heading rendered as %q", e.level, ln), cv)
						case 2:
							ind := strings.Repeat("  ", e.level)
							okm := strings.HasPrefix(ln, ind) && !strings.HasPrefix(ln, ind+" ")
							r.Check(okm, "md-list-indent:"+name, fmt.Sprintf("level-%d list item rendered as %q", e.level, ln), cv)
						}
					}
				}
			}
		}
	}
}
