package main

import (
	"fmt"
	"github.com/tsawler/tabula/model"
	"os"
	"strings"

	"github.com/tsawler/tabula"
	"github.com/tsawler/tabula/xlsx"
)

type c17Cell struct {
	ref   string
	t     string // attribute value; "" = absent
	v     string
	f     string
	is    *string
	hasV  bool
	col   int // intended address
	row   int
	shown string // expected display value
}

type c17Row struct {
	r     int
	cells []c17Cell
}

type c17Sheet struct {
	name   string
	rows   []c17Row
	merges []string
}

type c17SI struct {
	t    string
	runs []string
}

func refOf(col, row int) string {
	s := ""
	n := col + 1
	for n > 0 {
		n--
		s = string(rune('A'+n%26)) + s
		n /= 26
	}
	return s + itoa(row+1)
}

func c17SheetXML(s c17Sheet) []byte {
	var b strings.Builder
	b.WriteString(`<?xml version="1.0" encoding="UTF-8" standalone="yes"?>` + "\n")
	b.WriteString(`<worksheet xmlns="http://schemas.openxmlformats.org/spreadsheetml/2006/main"><sheetData>`)
	for _, r := range s.rows {
		fmt.Fprintf(&b, `<row r="%d">`, r.r)
		for _, c := range r.cells {
			fmt.Fprintf(&b, `<c r="%s"`, xmlEsc(c.ref))
			if c.t != "" {
				fmt.Fprintf(&b, ` t="%s"`, c.t)
			}
			b.WriteString(">")
			if c.f != "" {
				fmt.Fprintf(&b, `<f>%s</f>`, xmlEsc(c.f))
			}
			if c.hasV {
				fmt.Fprintf(&b, `<v>%s</v>`, xmlEsc(c.v))
			}
			if c.is != nil {
				fmt.Fprintf(&b, `<is><t>%s</t></is>`, xmlEsc(*c.is))
			}
			b.WriteString("</c>")
		}
		b.WriteString("</row>")
	}
	b.WriteString("</sheetData>")
	if len(s.merges) > 0 {
		fmt.Fprintf(&b, `<mergeCells count="%d">`, len(s.merges))
		for _, m := range s.merges {
			fmt.Fprintf(&b, `<mergeCell ref="%s"/>`, m)
		}
		b.WriteString("</mergeCells>")
	}
	b.WriteString("</worksheet>")
	return []byte(b.String())
}

func c17Workbook(sheets []c17Sheet, sst []c17SI) []byte {
	return writeZip(c17WorkbookMembers(sheets, sst))
}

func c17WorkbookMembers(sheets []c17Sheet, sst []c17SI) []zipMember {
	var wb, rels, ct strings.Builder
	wb.WriteString(`<?xml version="1.0" encoding="UTF-8"?><workbook xmlns="http://schemas.openxmlformats.org/spreadsheetml/2006/main" xmlns:r="http://schemas.openxmlformats.org/officeDocument/2006/relationships"><sheets>`)
	rels.WriteString(`<?xml version="1.0" encoding="UTF-8"?><Relationships xmlns="http://schemas.openxmlformats.org/package/2006/relationships">`)
	ct.WriteString(`<?xml version="1.0" encoding="UTF-8"?><Types xmlns="http://schemas.openxmlformats.org/package/2006/content-types"><Default Extension="xml" ContentType="application/xml"/><Default Extension="rels" ContentType="application/vnd.openxmlformats-package.relationships+xml"/><Override PartName="/xl/workbook.xml" ContentType="application/vnd.openxmlformats-officedocument.spreadsheetml.sheet.main+xml"/></Types>`)
	ms := []zipMember{}
	for i, s := range sheets {
		fmt.Fprintf(&wb, `<sheet name="%s" sheetId="%d" r:id="rId%d"/>`, xmlEsc(s.name), i+1, i+1)
		fmt.Fprintf(&rels, `<Relationship Id="rId%d" Type="http://schemas.openxmlformats.org/officeDocument/2006/relationships/worksheet" Target="worksheets/sheet%d.xml"/>`, i+1, i+1)
		ms = append(ms, zipMember{Name: fmt.Sprintf("xl/worksheets/sheet%d.xml", i+1), Data: c17SheetXML(s)})
	}
	wb.WriteString(`</sheets></workbook>`)
	rels.WriteString(`</Relationships>`)
	var ss strings.Builder
	ss.WriteString(`<?xml version="1.0" encoding="UTF-8"?><sst xmlns="http://schemas.openxmlformats.org/spreadsheetml/2006/main">`)
	for _, si := range sst {
		ss.WriteString("<si>")
		if si.t != "" || len(si.runs) == 0 {
			fmt.Fprintf(&ss, `<t xml:space="preserve">%s</t>`, xmlEsc(si.t))
		}
		for _, r := range si.runs {
			fmt.Fprintf(&ss, `<r><rPr><b/></rPr><t xml:space="preserve">%s</t></r>`, xmlEsc(r))
		}
		ss.WriteString("</si>")
	}
	ss.WriteString("</sst>")
	all := []zipMember{
		{Name: "[Content_Types].xml", Data: []byte(ct.String())},
		{Name: "_rels/.rels", Data: []byte(`<?xml version="1.0" encoding="UTF-8"?><Relationships xmlns="http://schemas.openxmlformats.org/package/2006/relationships"><Relationship Id="rId1" Type="http://schemas.openxmlformats.org/officeDocument/2006/relationships/officeDocument" Target="xl/workbook.xml"/></Relationships>`)},
		{Name: "xl/workbook.xml", Data: []byte(wb.String())},
		{Name: "xl/_rels/workbook.xml.rels", Data: []byte(rels.String())},
		{Name: "xl/sharedStrings.xml", Data: []byte(ss.String())},
	}
	all = append(all, ms...)
	return all
}

var c17Words = []string{"alpha", "b", "Total 2024", "x|y", "naïve", "日本", "a&b<c>", "q\"uote", "  padded ", "0", "-1.5", "1e3", "TRUE", "#N/A"}

func c17Text(rng *RNG, plain bool) string {
	w := c17Words[rng.Intn(len(c17Words))]
	if !plain && rng.Chance(1, 12) {
		w += []string{"\tT", "\nN", " "}[rng.Intn(3)]
	}
	if rng.Chance(1, 3) {
		w += itoa(rng.Intn(1000))
	}
	return w
}

func tTag(t string) int {
	switch t {
	case "s":
		return 0
	case "b":
		return 1
	case "e":
		return 2
	case "str":
		return 3
	case "inlineStr":
		return 4
	}
	return 5
}

func c17CaseV(s c17Sheet, sst []c17SI) V {
	var sv VL = VL{}
	for _, si := range sst {
		var runs VL = VL{}
		for _, r := range si.runs {
			runs = append(runs, Bs(r))
		}
		sv = append(sv, L(Bs(si.t), runs))
	}
	var rv VL = VL{}
	for _, r := range s.rows {
		var cv VL = VL{}
		for _, c := range r.cells {
			var is V = L()
			if c.is != nil {
				is = L(Bs(*c.is))
			}
			v := ""
			if c.hasV {
				v = c.v
			}
			cv = append(cv, L(Bs(c.ref), I(tTag(c.t)), Bs(v), Bs(c.f), is))
		}
		rv = append(rv, L(I(r.r), cv))
	}
	var mv VL = VL{}
	for _, m := range s.merges {
		mv = append(mv, Bs(m))
	}
	return L(I(5), sv, rv, mv)
}

func c17Obs(rd *xlsx.Reader, idx int) V {
	sh, err := rd.Sheet(idx)
	if err != nil {
		return L()
	}
	var gv VL = VL{}
	for _, row := range sh.Rows {
		var rv VL = VL{}
		for _, c := range row {
			rv = append(rv, L(Bs(c.Value), I(int(c.Type)), Bool(c.IsMerged), Bool(c.IsMergeRoot), I(c.MergeRows), I(c.MergeCols)))
		}
		gv = append(gv, rv)
	}
	txt, _ := rd.TextWithOptions(xlsx.ExtractOptions{Sheets: []int{idx}})
	tb := rd.Tables()[idx]
	var tv VL = VL{}
	if len(tb.Headers) > 0 || len(tb.Rows) > 0 {
		var hv VL = VL{}
		for _, h := range tb.Headers {
			hv = append(hv, Bs(h))
		}
		tv = append(tv, hv)
		for _, row := range tb.Rows {
			var rv VL = VL{}
			for _, c := range row {
				rv = append(rv, Bs(c))
			}
			tv = append(tv, rv)
		}
	}
	return L(gv, Bs(txt), tv)
}

// genSheet: sparse addressed cells of every type; valid = unique addresses,
// consistent refs, merges non-overlapping with empty covered cells.
func c17GenSheet(rng *RNG, sst *[]c17SI, maxCol, maxRow int, valid bool) c17Sheet {
	s := c17Sheet{name: "S" + itoa(rng.Intn(100))}
	n := rng.Range(0, 14)
	used := map[[2]int]bool{}
	type region struct{ c0, r0, c1, r1 int }
	var regs []region
	if rng.Chance(1, 2) {
		k := rng.Range(1, 3)
		for i := 0; i < k; i++ {
			c0, r0 := rng.Intn(maxCol), rng.Intn(maxRow)
			rg := region{c0, r0, c0 + rng.Intn(3), r0 + rng.Intn(3)}
			if rg.c0 == rg.c1 && rg.r0 == rg.r1 {
				rg.c1++
			}
			ok := true
			for _, o := range regs {
				if !(rg.c1 < o.c0 || o.c1 < rg.c0 || rg.r1 < o.r0 || o.r1 < rg.r0) {
					ok = false
				}
			}
			if ok {
				regs = append(regs, rg)
				s.merges = append(s.merges, refOf(rg.c0, rg.r0)+":"+refOf(rg.c1, rg.r1))
			}
		}
	}
	covered := func(c, r int) bool {
		for _, g := range regs {
			if c >= g.c0 && c <= g.c1 && r >= g.r0 && r <= g.r1 && !(c == g.c0 && r == g.r0) {
				return true
			}
		}
		return false
	}
	rowsMap := map[int]*c17Row{}
	var order []int
	for i := 0; i < n; i++ {
		col, row := rng.Intn(maxCol), rng.Intn(maxRow)
		if i == 0 && len(regs) > 0 {
			col, row = regs[0].c0, regs[0].r0 // value at a merge root
		}
		if valid && (used[[2]int{col, row}] || covered(col, row)) {
			continue
		}
		used[[2]int{col, row}] = true
		c := c17Cell{ref: refOf(col, row), col: col, row: row}
		if rng.Chance(1, 5) {
			c.ref = strings.ToLower(c.ref)
		}
		switch rng.Intn(8) {
		case 0, 1: // shared
			c.t = "s"
			var si c17SI
			if rng.Chance(1, 3) {
				si.runs = []string{c17Text(rng, valid), c17Text(rng, valid)}
				if rng.Bool() {
					si.runs = append(si.runs, c17Text(rng, valid))
				}
				c.shown = strings.Join(si.runs, "")
			} else {
				si.t = c17Text(rng, valid)
				c.shown = si.t
			}
			*sst = append(*sst, si)
			c.v = itoa(len(*sst) - 1)
			c.hasV = true
		case 2:
			c.t = "inlineStr"
			t := c17Text(rng, valid)
			c.is = &t
			c.shown = t
		case 3:
			c.t = "b"
			c.hasV = true
			if rng.Bool() {
				c.v, c.shown = "1", "TRUE"
			} else {
				c.v, c.shown = "0", "FALSE"
			}
		case 4:
			c.t = "e"
			c.hasV = true
			c.v = []string{"#DIV/0!", "#N/A", "#REF!"}[rng.Intn(3)]
			c.shown = c.v
		case 5:
			c.t = "str"
			c.f = "A1&B1"
			c.hasV = true
			c.v = c17Text(rng, valid)
			c.shown = c.v
		case 6:
			c.t = []string{"", "n"}[rng.Intn(2)]
			c.f = "SUM(A1:A3)"
			c.hasV = true
			c.v = itoa(rng.Intn(100000))
			c.shown = c.v
		default:
			c.t = []string{"", "n"}[rng.Intn(2)]
			c.hasV = true
			c.v = []string{"42", "3.14159", "-7", "1E+10", "0.1"}[rng.Intn(5)]
			c.shown = c.v
		}
		rr, ok := rowsMap[row]
		if !ok {
			rr = &c17Row{r: row + 1}
			rowsMap[row] = rr
			order = append(order, row)
		}
		rr.cells = append(rr.cells, c)
	}
	// rows in generation order (= out of order), cells within a row in generation order
	if rng.Bool() {
		// sorted rows
		for i := 0; i < len(order); i++ {
			for j := i + 1; j < len(order); j++ {
				if order[j] < order[i] {
					order[i], order[j] = order[j], order[i]
				}
			}
		}
	}
	for _, r := range order {
		s.rows = append(s.rows, *rowsMap[r])
	}
	if !valid {
		// malformed extras: bad refs, refs disagreeing with the row, duplicate addresses,
		// out-of-range shared index, unknown type, empty cell with formula only, row 0
		extra := []c17Cell{
			{ref: "1A", t: "n", v: "9", hasV: true},
			{ref: "", t: "n", v: "9", hasV: true},
			{ref: "B", t: "n", v: "9", hasV: true},
			{ref: "C0", t: "n", v: "9", hasV: true},
			{ref: "D+2", t: "n", v: "8", hasV: true},
			{ref: "E-2", t: "n", v: "8", hasV: true},
			{ref: "A$1", t: "n", v: "8", hasV: true},
			{ref: refOf(rng.Intn(maxCol), rng.Intn(maxRow)), t: "s", v: "999", hasV: true},
			{ref: refOf(rng.Intn(maxCol), rng.Intn(maxRow)), t: "s", v: "-1", hasV: true},
			{ref: refOf(rng.Intn(maxCol), rng.Intn(maxRow)), t: "s", v: "x", hasV: true},
			{ref: refOf(rng.Intn(maxCol), rng.Intn(maxRow)), t: "d", v: "2024-01-01", hasV: true},
			{ref: refOf(rng.Intn(maxCol), rng.Intn(maxRow)), f: "A1+1"},
			{ref: refOf(rng.Intn(maxCol), rng.Intn(maxRow)), t: "inlineStr"},
			{ref: refOf(rng.Intn(maxCol), rng.Intn(maxRow)), t: "b", v: "true", hasV: true},
			{ref: refOf(rng.Intn(maxCol), rng.Intn(maxRow))},
		}
		for _, e := range extra {
			if rng.Bool() {
				continue
			}
			ri := rng.Intn(len(s.rows) + 1)
			if ri == len(s.rows) {
				s.rows = append(s.rows, c17Row{r: rng.Range(0, maxRow)})
			}
			s.rows[ri].cells = append(s.rows[ri].cells, e)
		}
		if rng.Bool() {
			s.merges = append(s.merges, []string{"A1", "A1:B", "B2:A1", "A1:B2:C3", "ZZ1:AAA2", "a1:b2"}[rng.Intn(6)])
		}
	}
	return s
}

func init() {
	props["C17"] = func(r *Run, rng *RNG) {
		thorough := r.Tier == "thorough"
		r.Rule = "cases: reference codec exhaustively for columns 0..18277 (A..ZZZ) and rows 1..200 (implementation side) with model comparison on every column and sampled refs; malformed reference strings; generated workbooks (1..3 sheets, sparse cells of every type, rich-text shared strings, merges, rows/cells out of order, lower-case refs) plus malformed variants (bad refs, duplicate addresses, bad shared indices). non-trivial = a sheet with >=3 placed cells or a codec case with >=2 letters"
		// ---- codec, exhaustive on the implementation side
		maxCol := 18278
		for col := 0; col < maxCol; col++ {
			s := xlsx.IndexToColumn(col)
			back := xlsx.ColumnToIndex(s)
			r.Check(back == col, "codec-col-roundtrip", fmt.Sprintf("ColumnToIndex(IndexToColumn(%d))=%d via %q", col, back, s), L(I(1), I(col)))
			r.Check(s == refOf(col, 0)[:len(refOf(col, 0))-1], "codec-col-letters", fmt.Sprintf("IndexToColumn(%d)=%q", col, s), L(I(1), I(col)))
			r.Case(L(I(1), I(col)), Bs(s), "codec:i2c", len(s) >= 2)
			r.Case(L(I(0), Bs(s)), I(back), "codec:c2i", len(s) >= 2)
			if col%37 == 0 || col < 60 {
				for _, row := range []int{0, 1, 8, 9, 98, 99, 199, 1048575} {
					ref := xlsx.CellRef(col, row)
					c2, r2, err := xlsx.ParseCellRef(ref)
					r.Check(err == nil && c2 == col && r2 == row, "codec-ref-roundtrip", fmt.Sprintf("ParseCellRef(CellRef(%d,%d)=%q)=(%d,%d,%v)", col, row, ref, c2, r2, err), L(I(3), I(col), I(row)))
					r.Case(L(I(3), I(col), I(row)), Bs(ref), "codec:cellref", true)
					var ov V = L()
					if err == nil {
						ov = L(I(c2), I(r2))
					}
					r.Case(L(I(2), Bs(ref)), ov, "codec:parseref", true)
				}
			}
		}
		// all (col,row) pairs in a bounded range, implementation side only
		for col := 0; col < 703; col += 1 {
			for row := 0; row < 200; row++ {
				ref := xlsx.CellRef(col, row)
				c2, r2, err := xlsx.ParseCellRef(ref)
				r.Check(err == nil && c2 == col && r2 == row, "codec-ref-roundtrip", fmt.Sprintf("ParseCellRef(%q)=(%d,%d,%v)", ref, c2, r2, err), L(I(3), I(col), I(row)))
			}
		}
		// larger indices
		for _, col := range []int{18277, 18278, 475253, 475254, 12356629, 1 << 40, 1<<62 - 1} {
			s := xlsx.IndexToColumn(col)
			r.Case(L(I(1), I(col)), Bs(s), "codec:i2c-big", true)
			if len(s) <= 12 {
				back := xlsx.ColumnToIndex(s)
				r.Check(back == col, "codec-col-roundtrip", fmt.Sprintf("big %d", col), L(I(1), I(col)))
				r.Case(L(I(0), Bs(s)), I(back), "codec:c2i-big", true)
			}
		}
		r.Case(L(I(1), I(-1)), Bs(xlsx.IndexToColumn(-1)), "codec:i2c-neg", false)
		// malformed refs
		for _, s := range []string{"", "A", "1", "A0", "A-1", "A+1", "a1", "aB12", "A1B", "A 1", "A1 ", " A1", "$A$1", "A01", "Ä1", "A١", "AAAAAAAAAAAA1", "A9223372036854775807", "A9223372036854775808", "A:1", "R1C1", "A1:B2", "[1", "@1", "`1", "{1", "Z9", "z9"} {
			c2, r2, err := xlsx.ParseCellRef(s)
			var ov V = L()
			if err == nil {
				ov = L(I(c2), I(r2))
			}
			r.Case(L(I(2), Bs(s)), ov, "codec:parseref-malformed", false)
			a, b, c, d, err := xlsx.ParseRangeRef(s)
			ov = L()
			if err == nil {
				ov = L(I(a), I(b), I(c), I(d))
			}
			r.Case(L(I(4), Bs(s)), ov, "codec:range", false)
		}
		for _, s := range []string{"A1:B2", "b2:a1", "A1:B", "A1:B2:C3", ":", "A1:", ":B2", "AA10:AB20"} {
			a, b, c, d, err := xlsx.ParseRangeRef(s)
			var ov V = L()
			if err == nil {
				ov = L(I(a), I(b), I(c), I(d))
			}
			r.Case(L(I(4), Bs(s)), ov, "codec:range", true)
		}
		for _, s := range []string{"A@", "A[", "a`", "a{", "É", "A1", "", "é"} {
			if s == "É" || s == "é" {
				continue // non-ASCII goes through strings.ToUpper on runes; outside the byte model
			}
			r.Case(L(I(0), Bs(s)), I(xlsx.ColumnToIndex(s)), "codec:c2i-malformed", false)
		}
		// ---- workbooks
		nBooks := 150
		if thorough {
			nBooks = 4000
		}
		for bi := 0; bi < nBooks; bi++ {
			valid := bi%4 != 3
			var sst []c17SI
			ns := rng.Range(1, 3)
			var sheets []c17Sheet
			mc, mr := 8, 12
			if bi%5 == 0 {
				mc, mr = 702, 200 // A..ZZ x 1..200
			}
			for i := 0; i < ns; i++ {
				sheets = append(sheets, c17GenSheet(rng, &sst, mc, mr, valid))
			}
			data := c17Workbook(sheets, sst)
			path := tmpFile(r, ".xlsx", data)
			if valid && bi%10 == 0 {
				c03OneReaderOf(r, "xlsx", path)
			}
			rd, err := xlsx.Open(path)
			if err != nil {
				r.Check(!valid, "open-failed", "generated workbook does not open: "+err.Error(), nil)
				os.Remove(path)
				continue
			}
			dm, _ := rd.Document()
			var sheetWants []map[[2]int]string
			for i, s := range sheets {
				cv := c17CaseV(s, sst)
				tag := "book:valid"
				if !valid {
					tag = "book:malformed"
				}
				ncells := 0
				for _, rw := range s.rows {
					ncells += len(rw.cells)
				}
				r.Case(cv, c17Obs(rd, i), tag, ncells >= 3)
				if !valid {
					continue
				}
				// (b) the property itself on the implementation
				sh, _ := rd.Sheet(i)
				want := map[[2]int]string{}
				for _, rw := range s.rows {
					for _, c := range rw.cells {
						want[[2]int{c.row, c.col}] = c.shown
					}
				}
				sheetWants = append(sheetWants, want)
				okGrid := true
				desc := ""
				for k, v := range want {
					c := sh.Cell(k[0], k[1])
					if c == nil || c.Value != v {
						okGrid = false
						desc = fmt.Sprintf("cell %s: want %q got %v", refOf(k[1], k[0]), v, c)
					}
				}
				for ri, row := range sh.Rows {
					for ci, c := range row {
						if _, ok := want[[2]int{ri, ci}]; !ok && c.Value != "" {
							okGrid = false
							desc = fmt.Sprintf("cell %s should be blank, has %q", refOf(ci, ri), c.Value)
						}
					}
				}
				r.Check(okGrid, "grid-position", desc, cv)
				// text: line r field c
				txt, _ := rd.TextWithOptions(xlsx.ExtractOptions{Sheets: []int{i}})
				clean := true
				for _, v := range want {
					if strings.ContainsAny(v, "\t\n") {
						clean = false
					}
				}
				if clean && len(sh.Rows) > 0 {
					lines := strings.Split(txt, "\n")
					okT := len(lines) == len(sh.Rows)
					for k, v := range want {
						if !okT {
							break
						}
						f := strings.Split(lines[k[0]], "\t")
						if k[1] >= len(f) || f[k[1]] != v {
							okT = false
							desc = fmt.Sprintf("text line %d field %d: want %q", k[0], k[1], v)
						}
					}
					r.Check(okT, "text-position", desc, cv)
				}
				// table: position relative to the content bounding box
				tb := rd.Tables()[i]
				minR, minC := 1<<30, 1<<30
				for k, v := range want {
					if v == "" {
						continue
					}
					if k[0] < minR {
						minR = k[0]
					}
					if k[1] < minC {
						minC = k[1]
					}
				}
				okTb := true
				all := append([][]string{tb.Headers}, tb.Rows...)
				for k, v := range want {
					if v == "" {
						continue
					}
					rr, cc := k[0]-minR, k[1]-minC
					if rr >= len(all) || cc >= len(all[rr]) || all[rr][cc] != v {
						okTb = false
						desc = fmt.Sprintf("table cell (%d,%d): want %q", rr, cc, v)
					}
				}
				r.Check(okTb, "table-position", desc, cv)
				// the document model's table of this sheet: the same positions
				if dm != nil && i < len(dm.Pages) {
					okDm := true
					descD := ""
					var mt *model.Table
					for _, el := range dm.Pages[i].Elements {
						if t, ok := el.(*model.Table); ok {
							mt = t
						}
					}
					for k, v := range want {
						if v == "" {
							continue
						}
						rr, cc := k[0]-minR, k[1]-minC
						if mt == nil || rr >= len(mt.Rows) || cc >= len(mt.Rows[rr]) || mt.Rows[rr][cc].Text != v {
							okDm = false
							descD = fmt.Sprintf("document-model cell (%d,%d): want %q", rr, cc, v)
						}
					}
					r.Check(okDm, "document-position", descD, cv)
				}
			}
			// the Markdown of the workbook: one pipe table per non-empty sheet, cells at the same positions
			if !valid {
				// malformed workbooks: only the model agreement above
			} else if md, merr := rd.Markdown(); merr == nil {
				var blocks []string
				cur := ""
				for _, ln := range strings.Split(md, "\n") {
					if strings.HasPrefix(strings.TrimSpace(ln), "|") {
						cur += ln + "\n"
					} else if cur != "" {
						blocks = append(blocks, cur)
						cur = ""
					}
				}
				if cur != "" {
					blocks = append(blocks, cur)
				}
				bi2 := 0
				okMd, descM := true, ""
				for si := range sheetWants {
					want := sheetWants[si]
					minR, minC, any := 1<<30, 1<<30, false
					for k, v := range want {
						if v == "" {
							continue
						}
						any = true
						if k[0] < minR {
							minR = k[0]
						}
						if k[1] < minC {
							minC = k[1]
						}
					}
					if !any {
						continue
					}
					if bi2 >= len(blocks) {
						okMd, descM = false, fmt.Sprintf("sheet %d has no pipe table in the Markdown", si)
						break
					}
					grid, ok := gfmTable(blocks[bi2])
					bi2++
					if !ok {
						okMd, descM = false, fmt.Sprintf("the pipe table of sheet %d does not read back", si)
						break
					}
					for k, v := range want {
						if v == "" {
							continue
						}
						rr, cc := k[0]-minR, k[1]-minC
						nv := strings.Join(strings.Fields(strings.ReplaceAll(v, "|", " ")), " ")
						if rr >= len(grid) || cc >= len(grid[rr]) || strings.Join(strings.Fields(strings.ReplaceAll(grid[rr][cc], "|", " ")), " ") != nv {
							okMd, descM = false, fmt.Sprintf("sheet %d Markdown cell (%d,%d): want %q", si, rr, cc, v)
						}
					}
				}
				r.Check(okMd, "markdown-position", descM, nil)
			} else {
				r.Check(false, "markdown-position", "Markdown() fails: "+merr.Error(), nil)
			}
			// through the top-level API: same text as the reader
			if bi%10 == 0 {
				t1, e1 := rd.Text()
				ext := tabula.Open(path)
				t2, _, e2 := ext.Text()
				r.Check(e1 == nil && e2 == nil && strings.TrimSpace(t1) == strings.TrimSpace(t2), "toplevel-text", "tabula.Open(f).Text() differs from xlsx reader text", nil)
			}
			rd.Close()
			os.Remove(path)
		}
	}
}
