package main

import (
	"fmt"
	"net/url"
	"os"
	"path"
	"regexp"
	"strings"

	"github.com/tsawler/tabula"
	"github.com/tsawler/tabula/epubdoc"
	"github.com/tsawler/tabula/pptx"
	"github.com/tsawler/tabula/xlsx"
)

var c18TokRe = regexp.MustCompile(`tok[0-9]+x`)

func pairsV(ps [][2]string) V {
	var l VL = VL{}
	for _, p := range ps {
		l = append(l, L(Bs(p[0]), Bs(p[1])))
	}
	return l
}

func shuffleStrs(rng *RNG, in [][2]string) [][2]string {
	out := append([][2]string{}, in...)
	for i := len(out) - 1; i > 0; i-- {
		j := rng.Intn(i + 1)
		out[i], out[j] = out[j], out[i]
	}
	return out
}

func permutation(rng *RNG, n int) []int {
	p := make([]int, n)
	for i := range p {
		p[i] = i
	}
	for i := n - 1; i > 0; i-- {
		j := rng.Intn(i + 1)
		p[i], p[j] = p[j], p[i]
	}
	return p
}

func sheetXMLWithToken(tok string) []byte {
	return c17SheetXML(c17Sheet{rows: []c17Row{{r: 1, cells: []c17Cell{{ref: "A1", t: "inlineStr", is: &tok}}}}})
}

// c18OrderOf: the part tokens of a text in order, runs of the same token counted once
func c18OrderOf(s string) string {
	var out []string
	for _, t := range c18TokRe.FindAllString(s, -1) {
		if len(out) == 0 || out[len(out)-1] != t {
			out = append(out, t)
		}
	}
	return strings.Join(out, ",")
}

// c18EntryPoints: plain text, Markdown and chunks of the whole file follow the declared order too
func c18EntryPoints(r *Run, format, p string, wantToks []string, cv V) {
	want := strings.Join(wantToks, ",")
	txt, _, e1 := tabula.Open(p).Text()
	md, _, e2 := tabula.Open(p).ToMarkdown()
	var ct strings.Builder
	cc, _, e3 := tabula.Open(p).Chunks()
	if e3 == nil && cc != nil {
		for _, c := range cc.Chunks {
			ct.WriteString(c.Text + "\n")
		}
	}
	ok := e1 == nil && e2 == nil && e3 == nil && c18OrderOf(txt) == want && c18OrderOf(md) == want && c18OrderOf(ct.String()) == want
	r.Check(ok, format+"-entry-points", fmt.Sprintf("declared readable order %s; Text gives %s (%v), ToMarkdown %s (%v), Chunks %s (%v)", want, c18OrderOf(txt), e1, c18OrderOf(md), e2, c18OrderOf(ct.String()), e3), cv)
}

func init() {
	props["C18"] = func(r *Run, rng *RNG) {
		thorough := r.Tier == "thorough"
		r.Rule = "generated XLSX / PPTX / EPUB packages whose declared order (workbook sheet list, presentation slide list, OPF spine) is a random permutation of both the part file-name order and the ZIP member order; part files with standard, renamed, nested, absolute and '../' targets; relationship lists shuffled; missing parts; unreferenced decoy parts; worksheet targets outside xl/; spine items with linear=\"no\"; EPUB hrefs with percent-escapes, '+', blanks and non-ASCII; OPF in nested directories; every part carries a unique token so that the order and the page of each part is observable. path.Clean and href resolution on a fixed list of awkward paths. non-trivial = at least 3 declared parts"
		n := 120
		if thorough {
			n = 4000
		}
		for it := 0; it < n; it++ {
			k := rng.Range(1, 6)
			perm := permutation(rng, k)
			// ---------- XLSX
			{
				var sheets [][2]string // name, rid
				var rels [][2]string   // rid, target
				var members [][2]string
				var zms []zipMember
				var wantNames, wantToks []string
				for i := 0; i < k; i++ {
					fileNo := perm[i] + 1 // declared position i lives in file number perm[i]+1
					tok := fmt.Sprintf("tok%dx", it*10+i)
					if k > 1 && rng.Chance(1, 8) {
						tok = "" // a declared worksheet without any cell: it still is a sheet, and a page
					}
					name := fmt.Sprintf("Sheet %c", 'A'+i)
					rid := fmt.Sprintf("rId%d", 10+rng.Intn(1)+i*3)
					var target, member string
					switch rng.Intn(6) {
					case 0:
						member = fmt.Sprintf("xl/worksheets/data_%c.xml", 'z'-i)
						target = strings.TrimPrefix(member, "xl/")
					case 1:
						member = fmt.Sprintf("xl/ws/deep/s%d.xml", fileNo)
						target = strings.TrimPrefix(member, "xl/")
					case 2:
						member = fmt.Sprintf("xl/worksheets/sheet%d.xml", fileNo)
						target = "/" + member
					case 3:
						// an absolute target outside xl/
						member = fmt.Sprintf("data/tabs/t%d.xml", fileNo)
						target = "/" + member
					default:
						member = fmt.Sprintf("xl/worksheets/sheet%d.xml", fileNo)
						target = strings.TrimPrefix(member, "xl/")
					}
					sheets = append(sheets, [2]string{name, rid})
					rels = append(rels, [2]string{rid, target})
					missing := k > 1 && rng.Chance(1, 12)
					if !missing {
						members = append(members, [2]string{member, tok})
						if tok == "" {
							zms = append(zms, zipMember{Name: member, Data: c17SheetXML(c17Sheet{})})
						} else {
							zms = append(zms, zipMember{Name: member, Data: sheetXMLWithToken(tok)})
						}
						wantNames = append(wantNames, name)
						wantToks = append(wantToks, tok)
					}
				}
				if it%4 == 1 {
					// a chart sheet in the workbook's sheet list: it is no worksheet and no page
					at := it / 4 % (len(sheets) + 1)
					sheets = append(sheets[:at], append([][2]string{{"Chart 1", "rIdChart"}}, sheets[at:]...)...)
					rels = append(rels, [2]string{"rIdChart", "chartsheets/sheet1.xml"})
					zms = append(zms, zipMember{Name: "xl/chartsheets/sheet1.xml", Data: []byte(`<?xml version="1.0"?><chartsheet xmlns="http://schemas.openxmlformats.org/spreadsheetml/2006/main"><sheetViews><sheetView workbookViewId="0"/></sheetViews></chartsheet>`)})
				}
				if rng.Chance(1, 3) { // unreferenced decoy
					zms = append(zms, zipMember{Name: "xl/worksheets/sheet99.xml", Data: sheetXMLWithToken("tok99999x")})
					members = append(members, [2]string{"xl/worksheets/sheet99.xml", "tok99999x"})
				}
				if len(wantToks) > 0 {
					var wb, rl strings.Builder
					wb.WriteString(`<?xml version="1.0"?><workbook xmlns="http://schemas.openxmlformats.org/spreadsheetml/2006/main" xmlns:r="http://schemas.openxmlformats.org/officeDocument/2006/relationships"><sheets>`)
					for i, s := range sheets {
						fmt.Fprintf(&wb, `<sheet name="%s" sheetId="%d" r:id="%s"/>`, s[0], i+1, s[1])
					}
					wb.WriteString(`</sheets></workbook>`)
					rl.WriteString(`<?xml version="1.0"?><Relationships xmlns="http://schemas.openxmlformats.org/package/2006/relationships">`)
					for _, x := range shuffleStrs(rng, rels) {
						typ := "worksheet"
						if x[0] == "rIdChart" {
							typ = "chartsheet"
						}
						fmt.Fprintf(&rl, `<Relationship Id="%s" Type="http://schemas.openxmlformats.org/officeDocument/2006/relationships/%s" Target="%s"/>`, x[0], typ, x[1])
					}
					rl.WriteString(`<Relationship Id="rIdStyles" Type="http://schemas.openxmlformats.org/officeDocument/2006/relationships/styles" Target="styles.xml"/></Relationships>`)
					all := []zipMember{{Name: "[Content_Types].xml", Data: []byte(`<?xml version="1.0"?><Types xmlns="http://schemas.openxmlformats.org/package/2006/content-types"/>`)},
						{Name: "xl/workbook.xml", Data: []byte(wb.String())}, {Name: "xl/_rels/workbook.xml.rels", Data: []byte(rl.String())}}
					all = append(all, zms...)
					all = shuffleMembers(rng, all, false)
					// members in archive order for the model
					var mo [][2]string
					for _, m := range all {
						for _, x := range members {
							if x[0] == m.Name {
								mo = append(mo, x)
							}
						}
					}
					p := tmpFile(r, ".xlsx", writeZip(all))
					cv := L(I(0), pairsV(mo), pairsV(rels), pairsV(sheets))
					rd, err := xlsx.Open(p)
					if err != nil {
						r.Check(false, "xlsx-open", "generated workbook does not open: "+err.Error(), cv)
					} else {
						var got VL = VL{}
						var gotToks []string
						for i, nm := range rd.SheetNames() {
							sh, _ := rd.Sheet(i)
							v := ""
							if c := sh.Cell(0, 0); c != nil {
								v = c.Value
							}
							got = append(got, L(Bs(nm), Bs(v)))
							gotToks = append(gotToks, v)
						}
						r.Case(cv, got, "xlsx", k >= 3)
						okO := strings.Join(gotToks, ",") == strings.Join(wantToks, ",") && strings.Join(rd.SheetNames(), ",") == strings.Join(wantNames, ",")
						r.Check(okO, "xlsx-order", fmt.Sprintf("sheets read as %v, declared readable order is %v", gotToks, wantToks), cv)
						rd.Close()
						// through the top-level API: one page per declared readable sheet, each token in its own page only
						ext := tabula.Open(p)
						pc, e1 := ext.PageCount()
						doc, _, e2 := ext.Document()
						okP := e1 == nil && e2 == nil && pc == len(wantToks) && len(doc.Pages) == len(wantToks)
						if okP {
							for i, pg := range doc.Pages {
								toks := c18TokRe.FindAllString(pg.ExtractText(), -1)
								if wantToks[i] == "" {
									if len(toks) != 0 {
										okP = false
									}
								} else if len(toks) != 1 || toks[0] != wantToks[i] {
									okP = false
								}
							}
						}
						r.Check(okP, "xlsx-pages", "page count / per-page content does not follow the declared sheets", cv)
						var filled []string
						for _, t := range wantToks {
							if t != "" {
								filled = append(filled, t)
							}
						}
						c18EntryPoints(r, "xlsx", p, filled, cv)
					}
					os.Remove(p)
				}
			}
			// ---------- PPTX
			{
				var rids []string
				var rels [][2]string
				var members [][2]string
				var zms []zipMember
				var wantToks, wantNotes []string
				for i := 0; i < k; i++ {
					fileNo := perm[i] + 1
					tok := fmt.Sprintf("tok%dx", it*10+i)
					rid := fmt.Sprintf("rId%d", 20+i)
					var member, target string
					switch rng.Intn(6) {
					case 0:
						member = fmt.Sprintf("ppt/slides/part_%c.xml", 'z'-i)
						target = strings.TrimPrefix(member, "ppt/")
					case 1:
						member = fmt.Sprintf("ppt/slides/sub/s%d.xml", fileNo)
						target = "slides/./sub/../sub/" + fmt.Sprintf("s%d.xml", fileNo)
					case 2:
						member = fmt.Sprintf("ppt/slides/slide%d.xml", fileNo)
						target = "/" + member
					default:
						member = fmt.Sprintf("ppt/slides/slide%d.xml", fileNo)
						target = strings.TrimPrefix(member, "ppt/")
					}
					rids = append(rids, rid)
					rels = append(rels, [2]string{rid, target})
					missing := k > 1 && rng.Chance(1, 12)
					if !missing {
						members = append(members, [2]string{member, tok})
						zms = append(zms, zipMember{Name: member, Data: []byte(pptxSlideXML([]string{tok}))})
						wantToks = append(wantToks, tok)
						// speaker notes: found through the slide's own relationships
						note := ""
						if rng.Bool() && path.Dir(member) == "ppt/slides" {
							note = fmt.Sprintf("note-of-%s", tok)
							np := fmt.Sprintf("ppt/notesSlides/notesSlide%d.xml", fileNo)
							zms = append(zms, zipMember{Name: np, Data: []byte(`<?xml version="1.0"?><p:notes xmlns:a="http://schemas.openxmlformats.org/drawingml/2006/main" xmlns:p="http://schemas.openxmlformats.org/presentationml/2006/main"><p:cSld><p:spTree><p:sp><p:nvSpPr><p:cNvPr id="2" name="Notes"/><p:cNvSpPr/><p:nvPr><p:ph type="body" idx="1"/></p:nvPr></p:nvSpPr><p:spPr/><p:txBody><a:bodyPr/><a:p><a:r><a:t>` + note + `</a:t></a:r></a:p></p:txBody></p:sp></p:spTree></p:cSld></p:notes>`)})
							zms = append(zms, zipMember{Name: path.Join(path.Dir(member), "_rels", path.Base(member)+".rels"), Data: []byte(`<?xml version="1.0"?><Relationships xmlns="http://schemas.openxmlformats.org/package/2006/relationships"><Relationship Id="rIdN" Type="http://schemas.openxmlformats.org/officeDocument/2006/relationships/notesSlide" Target="../notesSlides/` + path.Base(np) + `"/></Relationships>`)})
						}
						wantNotes = append(wantNotes, note)
					}
				}
				if rng.Chance(1, 5) {
					// a slide-list entry whose relationship is missing: that entry alone is skipped
					at := rng.Intn(len(rids) + 1)
					rids = append(rids[:at], append([]string{fmt.Sprintf("rIdDangling%d", it)}, rids[at:]...)...)
				}
				if rng.Chance(1, 3) {
					zms = append(zms, zipMember{Name: "ppt/slides/slide98.xml", Data: []byte(pptxSlideXML([]string{"tok99998x"}))})
					members = append(members, [2]string{"ppt/slides/slide98.xml", "tok99998x"})
				}
				if len(wantToks) > 0 {
					var pres, rl strings.Builder
					pres.WriteString(`<?xml version="1.0"?><p:presentation xmlns:p="http://schemas.openxmlformats.org/presentationml/2006/main" xmlns:r="http://schemas.openxmlformats.org/officeDocument/2006/relationships"><p:sldIdLst>`)
					for i, rid := range rids {
						fmt.Fprintf(&pres, `<p:sldId id="%d" r:id="%s"/>`, 256+i, rid)
					}
					pres.WriteString(`</p:sldIdLst></p:presentation>`)
					rl.WriteString(`<?xml version="1.0"?><Relationships xmlns="http://schemas.openxmlformats.org/package/2006/relationships"><Relationship Id="rIdM" Type="http://schemas.openxmlformats.org/officeDocument/2006/relationships/slideMaster" Target="slideMasters/slideMaster1.xml"/>`)
					for _, x := range shuffleStrs(rng, rels) {
						fmt.Fprintf(&rl, `<Relationship Id="%s" Type="http://schemas.openxmlformats.org/officeDocument/2006/relationships/slide" Target="%s"/>`, x[0], x[1])
					}
					rl.WriteString(`</Relationships>`)
					all := []zipMember{{Name: "[Content_Types].xml", Data: []byte(`<?xml version="1.0"?><Types xmlns="http://schemas.openxmlformats.org/package/2006/content-types"/>`)},
						{Name: "ppt/presentation.xml", Data: []byte(pres.String())}, {Name: "ppt/_rels/presentation.xml.rels", Data: []byte(rl.String())}}
					all = append(all, zms...)
					all = shuffleMembers(rng, all, false)
					var mo [][2]string
					for _, m := range all {
						for _, x := range members {
							if x[0] == m.Name {
								mo = append(mo, x)
							}
						}
					}
					var ridV VL = VL{}
					for _, x := range rids {
						ridV = append(ridV, Bs(x))
					}
					p := tmpFile(r, ".pptx", writeZip(all))
					cv := L(I(1), pairsV(mo), pairsV(rels), ridV)
					rd, err := pptx.Open(p)
					if err != nil {
						r.Check(false, "pptx-open", "generated presentation does not open: "+err.Error(), cv)
					} else {
						var got VL = VL{}
						var gotToks, gotNotes []string
						for i := 0; i < rd.SlideCount(); i++ {
							s, _ := rd.Slide(i)
							t := strings.Join(c18TokRe.FindAllString(s.GetText(), -1), "+")
							got = append(got, Bs(t))
							gotToks = append(gotToks, t)
							gotNotes = append(gotNotes, s.Notes)
						}
						r.Check(strings.Join(gotNotes, ",") == strings.Join(wantNotes, ","), "pptx-notes", fmt.Sprintf("speaker notes per slide read as %q, the slides' own notes are %q", gotNotes, wantNotes), cv)
						r.Case(cv, got, "pptx", k >= 3)
						r.Check(strings.Join(gotToks, ",") == strings.Join(wantToks, ","), "pptx-order", fmt.Sprintf("slides read as %v, declared readable order is %v", gotToks, wantToks), cv)
						rd.Close()
						ext := tabula.Open(p)
						pc, e1 := ext.PageCount()
						doc, _, e2 := ext.Document()
						okP := e1 == nil && e2 == nil && pc == len(wantToks) && len(doc.Pages) == len(wantToks)
						if okP {
							for i, pg := range doc.Pages {
								toks := c18TokRe.FindAllString(pg.ExtractText(), -1)
								if len(toks) < 1 || toks[0] != wantToks[i] {
									okP = false
								}
								for _, t := range toks {
									if t != wantToks[i] {
										okP = false
									}
								}
							}
						}
						r.Check(okP, "pptx-pages", "page count / per-page content does not follow the declared slides", cv)
						c18EntryPoints(r, "pptx", p, wantToks, cv)
					}
					os.Remove(p)
				}
			}
			// ---------- EPUB
			{
				opf := []string{"OEBPS/content.opf", "content.opf", "a/b/package.opf", "EPUB/pkg.opf"}[rng.Intn(4)]
				base := path.Dir(opf)
				if base == "." {
					base = ""
				}
				names := []string{"ch%d.xhtml", "text/part%d.xhtml", "chapter %d.xhtml", "a+b%d.xhtml", "café%d.xhtml", "deep/er/c%d.xhtml", "100%%%d.xhtml"}
				var manifest [][2]string
				var spine []string
				var members [][2]string
				var zms []zipMember
				var wantToks []string
				for i := 0; i < k; i++ {
					fileNo := perm[i] + 1
					tok := fmt.Sprintf("tok%dx", it*10+i)
					rel := fmt.Sprintf(names[rng.Intn(len(names))], fileNo)
					member := path.Join(base, rel)
					if base == "" {
						member = rel
					}
					// href spelling: plain (when legal), percent-encoded path, or with ./ and ../
					href := (&url.URL{Path: rel}).EscapedPath()
					if rng.Chance(1, 4) && base != "" {
						href = "../" + path.Base(base) + "/" + href
					} else if rng.Chance(1, 5) && base != "" {
						href = "./" + href
					}
					id := fmt.Sprintf("item%d", i)
					manifest = append(manifest, [2]string{id, href})
					spine = append(spine, id)
					missing := k > 1 && rng.Chance(1, 12)
					if !missing {
						dup := false
						for _, m := range members {
							if m[0] == member {
								dup = true
							}
						}
						if dup {
							// two declared items on the same file: the content is that file's
							continue
						}
						members = append(members, [2]string{member, tok})
						zms = append(zms, zipMember{Name: member, Data: []byte(xhtmlDoc("t", "<p>"+tok+"</p>"))})
					}
				}
				// expected tokens: for each spine item the token of the member it resolves to (independently computed)
				for _, id := range spine {
					for _, m := range manifest {
						if m[0] != id {
							continue
						}
						dec, err := url.PathUnescape(m[1])
						if err != nil {
							dec = m[1]
						}
						target := dec
						if base != "" {
							target = path.Join(base, dec)
						}
						for _, mm := range members {
							if mm[0] == target {
								wantToks = append(wantToks, mm[1])
							}
						}
					}
				}
				if rng.Chance(1, 2) && len(members) > 0 {
					// an unreferenced member whose name differs from a chapter's only in the case of its letters
					m := members[rng.Intn(len(members))]
					swapped := strings.Map(func(c rune) rune {
						switch {
						case c >= 'a' && c <= 'z':
							return c - 32
						case c >= 'A' && c <= 'Z':
							return c + 32
						}
						return c
					}, path.Base(m[0]))
					d := path.Join(path.Dir(m[0]), swapped)
					dup := false
					for _, x := range members {
						if x[0] == d {
							dup = true
						}
					}
					if !dup && d != m[0] {
						zms = append(zms, zipMember{Name: d, Data: []byte(xhtmlDoc("t", "<p>tok99996x</p>"))})
						members = append(members, [2]string{d, "tok99996x"})
					}
				}
				if rng.Chance(1, 3) {
					d := path.Join(base, "decoy.xhtml")
					zms = append(zms, zipMember{Name: d, Data: []byte(xhtmlDoc("t", "<p>tok99997x</p>"))})
					members = append(members, [2]string{d, "tok99997x"})
				}
				if len(wantToks) > 0 {
					var items []epubItem
					for _, m := range manifest {
						items = append(items, epubItem{id: m[0], href: m[1], mediaType: "application/xhtml+xml"})
					}
					// some items are auxiliary (linear="no"): they keep their place in the declared order
					spineW := make([]string, len(spine))
					for si, id := range spine {
						spineW[si] = id
						switch rng.Intn(5) {
						case 0:
							spineW[si] = id + "|no"
						case 1:
							spineW[si] = id + "|yes"
						}
					}
					all := mkEPUB(opf, items, spineW, zms, rng.Chance(4, 5))
					if it%3 == 0 {
						// a second rootfile in the container (another rendition): the first one listed is the book
						for mi := range all {
							if all[mi].Name == "META-INF/container.xml" {
								all[mi].Data = []byte(strings.Replace(string(all[mi].Data), `</rootfiles>`, `<rootfile full-path="alt/other.opf" media-type="application/oebps-package+xml"/></rootfiles>`, 1))
							}
						}
						all = append(all, zipMember{Name: "alt/other.opf", Data: []byte(`<?xml version="1.0" encoding="UTF-8"?><package xmlns="http://www.idpf.org/2007/opf" version="3.0" unique-identifier="uid"><metadata xmlns:dc="http://purl.org/dc/elements/1.1/"><dc:identifier id="uid">x</dc:identifier><dc:title>other</dc:title><dc:language>en</dc:language></metadata><manifest><item id="o1" href="o1.xhtml" media-type="application/xhtml+xml"/></manifest><spine><itemref idref="o1"/></spine></package>`)},
							zipMember{Name: "alt/o1.xhtml", Data: []byte(xhtmlDoc("other", "<p>tok99997x of the other rendition</p>"))})
					}
					all = shuffleMembers(rng, all, true)
					var mo [][2]string
					for _, m := range all {
						for _, x := range members {
							if x[0] == m.Name {
								mo = append(mo, x)
							}
						}
					}
					var sv VL = VL{}
					for _, x := range spine {
						sv = append(sv, Bs(x))
					}
					p := tmpFile(r, ".epub", writeZip(all))
					cv := L(I(2), pairsV(mo), Bs(opf), pairsV(manifest), sv)
					rd, err := epubdoc.Open(p)
					if err != nil {
						r.Check(false, "epub-open", "generated EPUB does not open: "+err.Error(), cv)
					} else {
						var got VL = VL{}
						var gotToks []string
						for _, c := range rd.Chapters() {
							t := strings.Join(c18TokRe.FindAllString(string(c.Content), -1), "+")
							got = append(got, Bs(t))
							gotToks = append(gotToks, t)
						}
						r.Case(cv, got, "epub", k >= 3)
						r.Check(strings.Join(gotToks, ",") == strings.Join(wantToks, ","), "epub-order", fmt.Sprintf("chapters read as %v, spine order of readable items is %v", gotToks, wantToks), cv)
						rd.Close()
						ext := tabula.Open(p)
						pc, e1 := ext.PageCount()
						doc, _, e2 := ext.Document()
						okP := e1 == nil && e2 == nil && pc == len(wantToks) && doc != nil && len(doc.Pages) == len(wantToks)
						if okP {
							for i, pg := range doc.Pages {
								toks := c18TokRe.FindAllString(pg.ExtractText(), -1)
								if len(toks) != 1 || toks[0] != wantToks[i] {
									okP = false
								}
							}
						}
						r.Check(okP, "epub-pages", "page count / per-page content does not follow the spine", cv)
						c18EntryPoints(r, "epub", p, wantToks, cv)
					}
					os.Remove(p)
				}
			}
		}
		// ---- path.Clean and href resolution on awkward inputs (model vs the Go library functions the code calls)
		for _, p := range []string{"", ".", "/", "a", "a/b", "a//b", "a/./b", "a/../b", "../a", "../../a/b", "a/..", "a/../..", "/..", "/../a", "/a/../..", "a/b/../../..", "./", "a/", "//a", "a/b/./../c/", "..", "a/../../b", ".a/..b/...", "ppt/slides/./sub/../sub/s1.xml"} {
			r.Case(L(I(3), Bs(p)), Bs(path.Clean(p)), "clean", false)
		}
		for _, b := range []string{"", "OEBPS", "a/b"} {
			for _, h := range []string{"ch1.xhtml", "a+b.xhtml", "a%20b.xhtml", "caf%C3%A9.xhtml", "bad%zz.xhtml", "%", "x%2", "../c.xhtml", "./d/../e.xhtml", "100%25.xhtml", "%2e%2e/f.xhtml", "a%2Fb.xhtml"} {
				dec, err := url.PathUnescape(h)
				if err != nil {
					dec = h
				}
				want := dec
				if b != "" {
					want = path.Join(b, dec)
				}
				r.Case(L(I(4), Bs(b), Bs(h)), Bs(want), "href", false)
			}
		}
	}
}
