package main

import (
	"fmt"
	"os"
	"strings"

	"github.com/tsawler/tabula/epubdoc"
	"github.com/tsawler/tabula/htmldoc"
	"github.com/tsawler/tabula/model"
	"golang.org/x/net/html"
)

var c19Tags = map[string]int{
	"h1": 1, "h2": 2, "h3": 3, "h4": 4, "h5": 5, "h6": 6, "p": 7, "div": 8, "ul": 9, "ol": 10, "li": 11,
	"table": 12, "thead": 13, "tbody": 14, "tfoot": 15, "tr": 16, "td": 17, "th": 18, "pre": 19, "code": 20,
	"blockquote": 21, "a": 22, "br": 23, "hr": 24, "article": 25, "section": 26, "main": 27, "header": 28,
	"footer": 29, "nav": 30, "aside": 31, "script": 32, "style": 33, "noscript": 34, "template": 35,
	"svg": 36, "math": 37, "iframe": 38, "object": 39, "embed": 40,
}

func c19Attr(n *html.Node, key string) string {
	for _, a := range n.Attr {
		if a.Key == key {
			return a.Val
		}
	}
	return ""
}

func c19Node(n *html.Node) V {
	switch n.Type {
	case html.TextNode:
		return L(I(1), Bs(n.Data))
	case html.ElementNode:
		kids := VL{}
		for c := n.FirstChild; c != nil; c = c.NextSibling {
			kids = append(kids, c19Node(c))
		}
		return L(I(0), I(c19Tags[n.Data]), L(Bs(c19Attr(n, "role")), Bs(c19Attr(n, "class")), Bs(c19Attr(n, "id")), Bs(c19Attr(n, "rowspan")), Bs(c19Attr(n, "colspan"))), kids)
	}
	return L(I(2))
}

func c19Body(n *html.Node) *html.Node {
	if n.Type == html.ElementNode && n.Data == "body" {
		return n
	}
	for c := n.FirstChild; c != nil; c = c.NextSibling {
		if b := c19Body(c); b != nil {
			return b
		}
	}
	return nil
}

type c19gen struct {
	rng *RNG
	n   int
	// authored content anchors in document order with the names of the elements enclosing them
	anchors []string
}

func (g *c19gen) word() string {
	g.n++
	a := fmt.Sprintf("q%dz", g.n)
	g.anchors = append(g.anchors, a)
	return a
}

var c19Names = []string{"nav", "navbar", "navigate", "subnav", "nav-item", "Menu", "main-menu", "menuitem", "footer",
	"footnote", "foot", "sidebar", "aside-note", "widget", "widgets", "content", "banner-ad", "mastheadx", "top_nav",
	"breadcrumbs", "post", "article-body", "Navigation", "site-header", "pageheader", "colophon2", "x menu y", "menus", "NAV1"}

func (g *c19gen) attrs() string {
	var b strings.Builder
	if g.rng.Chance(1, 4) {
		fmt.Fprintf(&b, ` class="%s"`, c19Names[g.rng.Intn(len(c19Names))])
	}
	if g.rng.Chance(1, 6) {
		fmt.Fprintf(&b, ` id="%s"`, c19Names[g.rng.Intn(len(c19Names))])
	}
	if g.rng.Chance(1, 8) {
		fmt.Fprintf(&b, ` role="%s"`, []string{"navigation", "complementary", "banner", "contentinfo", "main", "note"}[g.rng.Intn(6)])
	}
	return b.String()
}

func (g *c19gen) inline(depth int) string {
	var b strings.Builder
	for k := g.rng.Range(1, 3); k > 0; k-- {
		switch g.rng.Intn(9) {
		case 0, 1, 2, 3:
			b.WriteString(g.word() + []string{" ", " &amp; ", " &lt;tag&gt; ", "&nbsp;", " caf&#233; ", "\n  "}[g.rng.Intn(6)])
		case 4:
			b.WriteString(`<a href="/x">` + g.word() + `</a> `)
		case 5:
			if depth < 2 {
				b.WriteString(`<span` + g.attrs() + `>` + g.inline(depth+1) + `</span>`)
			} else {
				b.WriteString(g.word())
			}
		case 6:
			b.WriteString(`<em>` + g.word() + `</em><br>`)
		case 7:
			b.WriteString(`<code>` + g.word() + `</code> `)
		case 8:
			b.WriteString(`<script>var hidden = "zz";</script><!-- note -->`)
		}
	}
	return b.String()
}

func (g *c19gen) list(depth int) string {
	tag := []string{"ul", "ol"}[g.rng.Intn(2)]
	var b strings.Builder
	b.WriteString("<" + tag + g.attrs() + ">")
	for k := g.rng.Range(1, 4); k > 0; k-- {
		switch g.rng.Intn(8) {
		default:
			b.WriteString("<li>" + g.inline(1))
			if depth < 2 && g.rng.Chance(1, 4) {
				b.WriteString(g.list(depth + 1))
			}
			if g.rng.Bool() {
				b.WriteString("</li>")
			}
		case 5:
			b.WriteString("<li><p>" + g.inline(1) + "</p><p>" + g.inline(1) + "</p></li>")
		case 6:
			// link-dense items
			b.WriteString(`<li><a href="/a">` + g.word() + `</a></li><li><a href="/b">` + g.word() + `</a></li>`)
		case 7:
			// content that is not an item inside the list (an item left open is closed first, so the
			// content is a child of the list, not trailing content of that item)
			b.WriteString("</li>")
			b.WriteString([]string{"<div>" + g.inline(1) + "</div>", "<h3>" + g.word() + "</h3>", "<pre>" + g.word() + "</pre>", "<p>" + g.word() + "</p>"}[g.rng.Intn(4)])
		}
	}
	b.WriteString("</" + tag + ">")
	return b.String()
}

func (g *c19gen) table() string {
	var b strings.Builder
	b.WriteString("<table" + g.attrs() + ">")
	row := func(cell string, n int) {
		b.WriteString("<tr>")
		for ; n > 0; n-- {
			sp := ""
			switch g.rng.Intn(8) {
			case 0:
				sp = ` colspan="2"`
			case 1:
				sp = ` rowspan="2"`
			case 2:
				sp = ` colspan="x"`
			case 3:
				sp = ` rowspan="0"`
			}
			b.WriteString("<" + cell + sp + ">" + g.inline(1) + "</" + cell + ">")
		}
		b.WriteString("</tr>")
	}
	if g.rng.Bool() {
		b.WriteString("<thead>")
		row("th", g.rng.Range(1, 3))
		b.WriteString("</thead>")
	}
	if g.rng.Chance(3, 4) {
		b.WriteString("<tbody>")
	}
	for k := g.rng.Range(1, 3); k > 0; k-- {
		row([]string{"td", "td", "th"}[g.rng.Intn(3)], g.rng.Range(1, 4))
	}
	if g.rng.Chance(1, 3) {
		b.WriteString("<tfoot>")
		row("td", g.rng.Range(1, 2))
		b.WriteString("</tfoot>")
	}
	b.WriteString("</table>")
	return b.String()
}

func (g *c19gen) linkBlock() string {
	tag := []string{"div", "section", "ul"}[g.rng.Intn(3)]
	var b strings.Builder
	b.WriteString("<" + tag + g.attrs() + ">")
	for k := g.rng.Range(3, 6); k > 0; k-- {
		item := `<a href="/p">` + g.word() + " link text</a>"
		if tag == "ul" {
			item = "<li>" + item + "</li>"
		} else if g.rng.Bool() {
			item = "<p>" + item + "</p>"
		}
		b.WriteString(item)
	}
	if g.rng.Bool() {
		b.WriteString(g.word())
	}
	b.WriteString("</" + tag + ">")
	return b.String()
}

func (g *c19gen) blocks(depth int, n int) string {
	var b strings.Builder
	for ; n > 0; n-- {
		switch g.rng.Intn(16) {
		case 0, 1:
			fmt.Fprintf(&b, "<h%d%s>%s</h%d>", g.rng.Range(1, 6), g.attrs(), g.inline(1), g.rng.Range(1, 6))
		case 2, 3, 4:
			b.WriteString("<p" + g.attrs() + ">" + g.inline(0))
			if g.rng.Chance(3, 4) {
				b.WriteString("</p>")
			}
		case 5:
			b.WriteString(g.list(0))
		case 6:
			b.WriteString(g.table())
		case 7:
			b.WriteString("<pre>" + g.word() + "\n  " + g.word() + "</pre>")
		case 8:
			b.WriteString("<blockquote" + g.attrs() + "><p>" + g.inline(1) + "</p>" + g.word() + "</blockquote>")
		case 9, 10, 11:
			if depth < 4 {
				tag := []string{"div", "div", "section", "article", "main", "header", "footer", "nav", "aside", "figure"}[g.rng.Intn(10)]
				b.WriteString("<" + tag + g.attrs() + ">" + g.blocks(depth+1, g.rng.Range(1, 3)) + "</" + tag + ">")
			} else {
				b.WriteString("<div>" + g.inline(1) + "</div>")
			}
		case 12:
			b.WriteString(g.linkBlock())
		case 13:
			b.WriteString("<div" + g.attrs() + ">" + g.inline(1) + "</div>")
		case 14:
			b.WriteString([]string{"<style>p{color:red}</style>", "<script>document.write('<p>no</p>')</script>", "<!-- c -->", "<hr>", "<li>" + g.word() + "</li>", "<noscript><p>ns</p></noscript>"}[g.rng.Intn(6)])
		case 15:
			// malformed: unclosed and misnested markup
			b.WriteString([]string{"<div><p>" + g.word() + "<div>" + g.word(), "</p></span>", "<b><p>" + g.word() + "</b>" + g.word() + "</p>", "<table><tr><td>" + g.word() + "<td>" + g.word()}[g.rng.Intn(4)])
		}
	}
	return b.String()
}

func c19Elements(doc *model.Document) V {
	v := VL{}
	for _, p := range doc.Pages {
		for _, e := range p.Elements {
			switch x := e.(type) {
			case *model.Paragraph:
				v = append(v, L(I(0), Bs(x.Text)))
			case *model.Heading:
				v = append(v, L(I(1), I(x.Level), Bs(x.Text)))
			case *model.List:
				items := VL{}
				for _, it := range x.Items {
					items = append(items, L(I(it.Level), Bs(it.Text)))
				}
				v = append(v, L(I(2), Bool(x.Ordered), items))
			case *model.Table:
				rows := VL{}
				for _, row := range x.Rows {
					rv := VL{}
					for _, c := range row {
						rv = append(rv, L(Bs(c.Text), Bool(c.IsHeader), I(c.RowSpan), I(c.ColSpan)))
					}
					rows = append(rows, rv)
				}
				v = append(v, L(I(3), rows))
			default:
				v = append(v, L(I(9)))
			}
		}
	}
	return v
}

// c19Items: the flattened text items of a document model.
func c19Items(doc *model.Document) []string {
	var out []string
	for _, p := range doc.Pages {
		for _, e := range p.Elements {
			switch x := e.(type) {
			case *model.Paragraph:
				out = append(out, "P:"+x.Text)
			case *model.Heading:
				out = append(out, fmt.Sprintf("H%d:%s", x.Level, x.Text))
			case *model.List:
				for _, it := range x.Items {
					out = append(out, fmt.Sprintf("I%d:%s", it.Level, it.Text))
				}
			case *model.Table:
				var b strings.Builder
				for _, row := range x.Rows {
					for _, c := range row {
						b.WriteString(c.Text + "\x1f")
					}
					b.WriteString("\x1e")
				}
				out = append(out, "T:"+b.String())
			}
		}
	}
	return out
}

func isSubsequence(small, big []string) bool {
	j := 0
	for _, x := range big {
		if j < len(small) && small[j] == x {
			j++
		}
	}
	return j == len(small)
}

func init() {
	props["C19"] = func(r *Run, rng *RNG) {
		thorough := r.Tier == "thorough"
		r.Rule = "HTML documents of 1..8 top-level blocks nested up to 4 deep: headings, paragraphs with inline markup (links, spans, emphasis, line breaks, code, scripts, comments, entities), ordered and unordered lists nested up to 3 deep with plain, paragraph-wrapped and link items and stray non-item children, tables with thead/tbody/tfoot, th/td and valid, zero and non-numeric spans, pre blocks, block quotes, div/section/article/main/header/footer/nav/aside/figure containers, link-dense blocks, class/id names from and near the exclusion vocabulary, ARIA roles, style/script/noscript, stray list items, unclosed and misnested tags; with and without a single top-level wrapper; all four exclusion modes; string, file and EPUB chapter entry points. non-trivial = at least 4 top-level blocks"
		g := &c19gen{rng: rng}
		n := 120
		if thorough {
			n = 3000
		}
		// table cells behind columns covered from above: each cell text in the column the spans leave for it
		for name, tc := range map[string]struct {
			html string
			want [][]string
		}{
			"block-span": {`<table><tr><td rowspan="2" colspan="2">A</td><td>B</td></tr><tr><td>C</td></tr><tr><td>D</td><td>E</td><td>F</td></tr></table>`,
				[][]string{{"A", "", "B"}, {"", "", "C"}, {"D", "E", "F"}}},
			"two-row-spans-side-by-side": {`<table><tr><td rowspan="2">A</td><td rowspan="2">B</td><td>C</td></tr><tr><td>D</td></tr></table>`,
				[][]string{{"A", "B", "C"}, {"", "", "D"}}},
			"three-covered-then-two-cells": {`<table><tr><td rowspan="3" colspan="3">A</td><td>B</td><td>C</td></tr><tr><td>D</td><td>E</td></tr><tr><td>F</td></tr></table>`,
				[][]string{{"A", "", "", "B", "C"}, {"", "", "", "D", "E"}, {"", "", "", "F", ""}}},
			"covered-in-the-middle": {`<table><tr><td>A</td><td rowspan="2" colspan="2">B</td><td>C</td></tr><tr><td>D</td><td>E</td></tr></table>`,
				[][]string{{"A", "B", "", "C"}, {"D", "", "", "E"}}},
		} {
			doc := `<html><body>` + tc.html + `</body></html>`
			why := ""
			rd, err := htmldoc.OpenReader(strings.NewReader(doc))
			if err != nil {
				why = err.Error()
			} else {
				md, err := rd.Markdown()
				var tbl strings.Builder
				for _, ln := range strings.Split(md, "\n") {
					if strings.HasPrefix(strings.TrimSpace(ln), "|") {
						tbl.WriteString(strings.TrimSpace(ln) + "\n")
					}
				}
				grid, ok := gfmTable(tbl.String())
				if err != nil || !ok || len(grid) != len(tc.want) {
					why = fmt.Sprintf("the Markdown table does not read back with %d rows: %q (%v)", len(tc.want), md, err)
				} else {
					for i := range tc.want {
						for j := range tc.want[i] {
							if j >= len(grid[i]) || strings.TrimSpace(grid[i][j]) != tc.want[i][j] {
								why = fmt.Sprintf("row %d column %d should hold %q: %q", i+1, j+1, tc.want[i][j], md)
							}
						}
					}
				}
			}
			r.Check(why == "", "table-grid-markdown", name+": "+why, Bs(doc))
		}
		// class/id pattern: the regexp against the model on the vocabulary and its neighbourhood
		for _, nm := range c19Names {
			for _, dec := range []string{"%s", "x%s", "%sx", "x-%s", "%s_2", "my %s here", "%s9", "9%s", "-%s-", "A%s"} {
				s := fmt.Sprintf(dec, nm)
				rd, err := htmldoc.OpenReader(strings.NewReader(`<body><p>keep</p><div class="` + s + `"><p>inside</p></div></body>`))
				if err != nil {
					continue
				}
				t, _ := rd.TextWithOptions(htmldoc.ExtractOptions{NavigationExclusion: htmldoc.NavigationExclusionStandard})
				r.Case(L(I(1), Bs(s)), Bool(!strings.Contains(t, "inside")), "pattern", true)
			}
		}
		for it := 0; it < n; it++ {
			g.anchors = nil
			nb := rng.Range(1, 8)
			body := g.blocks(0, nb)
			switch rng.Intn(4) {
			case 0:
				body = `<div id="page">` + body + `</div>`
			case 1:
				body = `<main>` + body + `</main><script>1</script>`
			case 2:
				// several top-level containers: none of them is "the" page wrapper, so a header or footer
				// inside the first one is not a top-level header
				hf := []string{"header", "footer"}[rng.Intn(2)]
				g.anchors = nil // the pieces again, in document order
				head := g.blocks(1, 1)
				body = g.blocks(0, nb)
				body = `<div id="first"><` + hf + `>` + head + `</` + hf + `>` + body + `</div><style>y{}</style><div id="second">` + g.blocks(1, rng.Range(1, 2)) + `</div>`
			}
			doc := `<!DOCTYPE html><html><head><title>t</title><style>x{}</style></head><body>` + body + `</body></html>`
			root, err := html.Parse(strings.NewReader(doc))
			if err != nil {
				continue
			}
			bodyV := c19Node(c19Body(root))
			path := tmpFile(r, ".html", []byte(doc))
			var items [4][]string
			var texts [4]string
			for mode := 0; mode < 4; mode++ {
				rd, err := htmldoc.OpenReader(strings.NewReader(doc))
				if err != nil {
					r.Check(false, "html-open", err.Error(), Bs(doc))
					continue
				}
				opts := htmldoc.ExtractOptions{NavigationExclusion: htmldoc.NavigationExclusionMode(mode)}
				d, err := rd.DocumentWithOptions(opts)
				if err != nil {
					r.Check(false, "html-document", err.Error(), Bs(doc))
					continue
				}
				cv := L(I(0), I(mode), bodyV)
				r.Case(cv, c19Elements(d), fmt.Sprintf("mode%d", mode), nb >= 4)
				items[mode] = c19Items(d)
				texts[mode], _ = rd.TextWithOptions(opts)
				// Markdown and the document model carry the same content in the same order as the text
				md, merr := rd.MarkdownWithOptions(opts)
				ta, ma, da := strings.Join(anchorsOf(texts[mode]), " "), strings.Join(anchorsOf(md), " "), strings.Join(anchorsOf(strings.Join(items[mode], "\n")), " ")
				r.Check(merr == nil && ma == ta && da == ta, "markdown-and-document-follow-text", fmt.Sprintf("mode %d: text carries %q, Markdown %q, the document model %q", mode, ta, ma, da), Bs(doc))
				r.Check(!strings.Contains(md, "color:red") && !strings.Contains(md, "document.write"), "script-style-leak", "script or style text in the Markdown", Bs(doc))
				// the same reader asked again, and after the other modes, answers the same (cache)
				for m2 := 3; m2 >= 0; m2-- {
					rd.TextWithOptions(htmldoc.ExtractOptions{NavigationExclusion: htmldoc.NavigationExclusionMode(m2)})
				}
				again, _ := rd.TextWithOptions(opts)
				r.Check(again == texts[mode], "cache", fmt.Sprintf("mode %d answers differently after other modes were queried", mode), Bs(doc))
				// file entry point
				fr, err := htmldoc.Open(path)
				if err == nil {
					ft, _ := fr.TextWithOptions(opts)
					r.Check(ft == texts[mode], "entry-file", fmt.Sprintf("mode %d: file and reader entry points differ", mode), Bs(doc))
					fr.Close()
				} else {
					r.Check(false, "entry-file", err.Error(), Bs(doc))
				}
			}
			os.Remove(path)
			// monotone: each stricter mode is a subsequence of the weaker one
			for m := 1; m < 4; m++ {
				r.Check(isSubsequence(items[m], items[m-1]), "monotone", fmt.Sprintf("mode %d returns items that are not a subsequence of mode %d: %q vs %q", m, m-1, items[m], items[m-1]), Bs(doc))
			}
			// mode None: every authored anchor outside script/style once and in order
			flat := strings.Join(items[0], "\n")
			ok, why := inOrder(flat, g.anchors)
			if !ok && strings.HasPrefix(why, "missing") {
				// text outside any content element (bare text in a container) is not promised
				a := strings.TrimPrefix(why, "missing: ")
				if c19Bare(root, a) {
					ok = true
					// check the rest without the bare anchors
					var keep []string
					for _, x := range g.anchors {
						if !c19Bare(root, x) {
							keep = append(keep, x)
						}
					}
					ok, why = inOrder(flat, keep)
				}
			}
			r.Check(ok, "content-once-in-order", why, Bs(doc))
			r.Check(!strings.Contains(flat, "hidden") && !strings.Contains(flat, "color:red") && !strings.Contains(flat, "document.write"), "script-style-leak", "script or style text in the output", Bs(doc))
			r.Check(!strings.Contains(flat, "&amp;") && !strings.Contains(flat, "&lt;") && !strings.Contains(flat, "&#233;") && !strings.Contains(flat, "<em>"), "entities-markup", "undecoded entity or markup in the output", Bs(doc))
			// EPUB chapter entry point
			if it%4 == 0 {
				ch := `<?xml version="1.0" encoding="UTF-8"?><html xmlns="http://www.w3.org/1999/xhtml"><head><title>c</title></head><body>` + body + `</body></html>`
				items := []epubItem{{id: "c1", href: "c1.xhtml", mediaType: "application/xhtml+xml"}}
				ms := mkEPUB("OEBPS/content.opf", items, []string{"c1"}, []zipMember{{Name: "OEBPS/c1.xhtml", Data: []byte(ch)}}, true)
				ep := tmpFile(r, ".epub", writeZip(ms))
				er, err := epubdoc.Open(ep)
				if err != nil {
					r.Check(false, "entry-epub", "generated EPUB does not open: "+err.Error(), Bs(doc))
				} else {
					for mode := 0; mode < 4; mode++ {
						et, _ := er.TextWithOptions(epubdoc.ExtractOptions{NavigationExclusion: mode})
						hr, _ := htmldoc.OpenReader(strings.NewReader(ch))
						ht, _ := hr.TextWithOptions(htmldoc.ExtractOptions{NavigationExclusion: htmldoc.NavigationExclusionMode(mode)})
						r.Check(et == strings.TrimSpace(ht), "entry-epub", fmt.Sprintf("mode %d: EPUB chapter text differs from the HTML reader on the same bytes", mode), Bs(doc))
					}
					er.Close()
				}
				os.Remove(ep)
			}
		}
	}
}

// c19Bare reports whether the text node holding the anchor has no content element
// (heading, paragraph, list item, cell, pre/code, blockquote, or a div that is read
// as a paragraph) among its ancestors.
func c19Bare(root *html.Node, anchor string) bool {
	var find func(n *html.Node) *html.Node
	find = func(n *html.Node) *html.Node {
		if n.Type == html.TextNode && strings.Contains(n.Data, anchor) {
			return n
		}
		for c := n.FirstChild; c != nil; c = c.NextSibling {
			if x := find(c); x != nil {
				return x
			}
		}
		return nil
	}
	t := find(root)
	if t == nil {
		return true
	}
	for p := t.Parent; p != nil; p = p.Parent {
		if p.Type != html.ElementNode {
			continue
		}
		switch p.Data {
		case "h1", "h2", "h3", "h4", "h5", "h6", "p", "li", "td", "th", "pre", "code", "blockquote":
			return false
		case "script", "style", "noscript", "template":
			return true
		}
	}
	return true
}
