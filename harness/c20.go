package main

import (
	"bytes"
	"errors"
	"fmt"
	"os"
	"path/filepath"
	"strings"

	"github.com/tsawler/tabula"
	"github.com/tsawler/tabula/epubdoc"
	"github.com/tsawler/tabula/format"
)

type c20Doc struct {
	f      format.Format
	zip    []zipMember // nil for PDF/HTML
	raw    []byte
	marker string
}

func c20Valid(rng *RNG, which int) c20Doc {
	marker := fmt.Sprintf("marker%d", rng.Intn(100000))
	switch which {
	case 0:
		raw := mkPDFSimple([]string{marker})
		if len(marker)%2 == 0 {
			// a file of the current version of the format
			raw = bytes.Replace(raw, []byte("%PDF-1.4"), []byte("%PDF-2.0"), 1)
		}
		return c20Doc{f: format.PDF, raw: raw, marker: marker}
	case 1:
		return c20Doc{f: format.DOCX, zip: mkDOCXSimple([]string{marker, "second"}), marker: marker}
	case 2:
		return c20Doc{f: format.ODT, zip: mkODTSimple([]string{marker}), marker: marker}
	case 3:
		return c20Doc{f: format.XLSX, zip: mkXLSXSimple([]string{marker, "b"}), marker: marker}
	case 4:
		return c20Doc{f: format.PPTX, zip: mkPPTXSimple([]string{marker, "two"}), marker: marker}
	case 5:
		return c20Doc{f: format.HTML, raw: mkHTMLSimple([]string{marker}), marker: marker}
	default:
		return c20Doc{f: format.EPUB, zip: mkEPUBSimple([]string{marker, "chapter two"}), marker: marker}
	}
}

func c20ContentV(d c20Doc, data []byte) V {
	if d.zip == nil {
		n := len(data)
		if n > 512 {
			n = 512
		}
		return L(I(0), VB(data[:n]))
	}
	var ms VL = VL{}
	for _, m := range d.zip {
		c := []byte{}
		if m.Name == "mimetype" {
			c = m.Data
		}
		ms = append(ms, L(Bs(m.Name), VB(c)))
	}
	return L(I(1), ms)
}

func c20Bytes(d c20Doc) []byte {
	if d.zip == nil {
		return d.raw
	}
	return writeZip(d.zip)
}

func shuffleMembers(rng *RNG, ms []zipMember, keepMimetypeFirst bool) []zipMember {
	out := append([]zipMember{}, ms...)
	start := 0
	if keepMimetypeFirst && len(out) > 0 && out[0].Name == "mimetype" {
		start = 1
	}
	for i := len(out) - 1; i > start; i-- {
		j := start + rng.Intn(i-start+1)
		out[i], out[j] = out[j], out[i]
	}
	return out
}

func fmtCode(f format.Format) int { return int(f) }

func init() {
	props["C20"] = func(r *Run, rng *RNG) {
		thorough := r.Tier == "thorough"
		r.Rule = "file names x extensions (7 + .htm, upper/mixed case, none, dots in directories); valid documents of the seven formats x ZIP member orders x decoy members of other formats (directory-prefix decoys, stray mimetype-like members); HTML signatures (doctype, <html, <?xml...<html, leading blanks, comment first); every document under every extension through tabula.Open(name).Text(); EPUBs x rights file x encryption.xml variants (subsets of items encrypted, two obfuscation URIs, AES, unknown, legacy substrings, URI case, unparsable file) x member order. non-trivial = a ZIP-based document or an EPUB with encryption metadata"
		// 1. extension table
		exts := []string{".pdf", ".docx", ".odt", ".xlsx", ".pptx", ".html", ".htm", ".epub", ".PDF", ".Docx", ".HTML", ".EPub", "", ".txt", ".doc", ".pdf.bak", ".tar.gz", ".", ".xls", ".ppt", ".xhtml"}
		stems := []string{"a", "dir.v2/report", "/tmp/x.y/z", "weird.name.with.dots", ".hidden", "noext", "UPPER", "dir.pdf/file"}
		for _, st := range stems {
			for _, e := range exts {
				name := st + e
				r.Case(L(I(0), Bs(name)), I(fmtCode(format.Detect(name))), "ext", false)
			}
		}
		// 2. content detection
		nDocs := 40
		if thorough {
			nDocs = 1500
		}
		decoys := []zipMember{{Name: "xl/decoy.bin", Data: []byte("x")}, {Name: "word/decoy.xml", Data: []byte("<x/>")}, {Name: "ppt/decoy.xml", Data: []byte("<x/>")},
			{Name: "docProps/app.xml", Data: []byte("<x/>")}, {Name: "customXml/item1.xml", Data: []byte("<x/>")}, {Name: "Thumbnails/thumbnail.png", Data: []byte("png")}}
		for i := 0; i < nDocs; i++ {
			for which := 0; which < 7; which++ {
				d := c20Valid(rng, which)
				tag := "detect:" + d.f.String()
				if d.zip != nil {
					// decoy directory-prefix members of other formats (never another format's main part)
					if rng.Chance(2, 3) {
						k := rng.Range(1, 3)
						for j := 0; j < k; j++ {
							dc := decoys[rng.Intn(len(decoys))]
							dup := false
							for _, m := range d.zip {
								if m.Name == dc.Name {
									dup = true
								}
							}
							if !dup {
								d.zip = append(d.zip, dc)
							}
						}
						tag += "+decoy"
					}
					if which == 2 && i%2 == 0 {
						// an OpenDocument text is what its mimetype member says, also when a container file of
						// another packaging convention lies beside it, before or after the mimetype in the archive
						d.zip = append(d.zip, zipMember{Name: "META-INF/container.xml", Data: []byte(`<?xml version="1.0"?><container/>`)})
						tag += "+container"
					}
					d.zip = shuffleMembers(rng, d.zip, false)
				}
				data := c20Bytes(d)
				got, err := format.DetectFromReader(bytes.NewReader(data), int64(len(data)))
				var ov V = RErr()
				if err == nil {
					ov = ROk(I(fmtCode(got)))
				}
				cv := L(I(1), c20ContentV(d, data))
				r.Case(cv, ov, tag, d.zip != nil)
				r.Check(err == nil && got == d.f, "own-format:"+d.f.String(), fmt.Sprintf("valid %s detected as %s (err %v)", d.f, got, err), cv)
				// 3. admission under every extension (subset of documents to keep the run short)
				if i%4 == 0 {
					for _, e := range []string{".pdf", ".docx", ".odt", ".xlsx", ".pptx", ".html", ".htm", ".epub", ".PDF", ".DocX", ""} {
						dir := filepath.Join(r.OutDir, "tmp")
						os.MkdirAll(dir, 0o755)
						path := filepath.Join(dir, fmt.Sprintf("adm%d_%d%s", i, which, e))
						os.WriteFile(path, data, 0o644)
						ext := tabula.Open(path)
						txt, _, terr := ext.Text()
						ext.Close()
						// every entry point admits or refuses the file as Text does
						_, _, e1 := tabula.Open(path).ToMarkdown()
						_, _, e2 := tabula.Open(path).Document()
						_, _, e3 := tabula.Open(path).Chunks()
						pcx := tabula.Open(path)
						_, e4 := pcx.PageCount()
						pcx.Close()
						// and so does the same extractor asked again (a refusal is not forgotten, an admission not withdrawn)
						again := tabula.Open(path)
						_, _, a1 := again.Text()
						_, _, a2 := again.Text()
						_, _, a3 := again.ToMarkdown()
						again.Close()
						same := (e1 != nil) == (terr != nil) && (e2 != nil) == (terr != nil) && (e3 != nil) == (terr != nil) && (e4 != nil) == (terr != nil) &&
							(a1 != nil) == (terr != nil) && (a2 != nil) == (terr != nil) && (a3 != nil) == (terr != nil)
						r.Check(same, "entry-points-disagree:"+d.f.String(), fmt.Sprintf("a %s file named %q: Text %v, ToMarkdown %v, Document %v, Chunks %v, PageCount %v; one extractor asked three times: %v, %v, %v", d.f, "f"+e, terr, e1, e2, e3, e4, a1, a2, a3), L(I(2), Bs("f"+e), c20ContentV(d, data)))
						os.Remove(path)
						refused := terr != nil && (strings.Contains(terr.Error(), "file format mismatch") || strings.Contains(terr.Error(), "failed to detect file format"))
						av := L(I(2), Bs("f"+e), c20ContentV(d, data))
						r.Case(av, Bool(!refused), "admit", d.zip != nil)
						own := format.Detect("f"+e) == d.f
						if own {
							r.Check(terr == nil && strings.Contains(txt, d.marker), "own-extension:"+d.f.String(), fmt.Sprintf("valid %s does not open under %q: %v", d.f, e, terr), av)
						} else {
							r.Check(terr != nil, "cross-extension:"+d.f.String(), fmt.Sprintf("valid %s opened under extension %q without error", d.f, e), av)
						}
					}
				}
			}
		}
		// HTML / raw signatures
		raws := []string{"<!DOCTYPE html><html></html>", "  \n\t<!doctype HTML PUBLIC>", "<html lang=en>", "<HTML>", "<?xml version=\"1.0\"?>\n<html xmlns=\"x\">", "<?xml version=\"1.0\"?><root/>",
			"<!-- c --><html>", "\xef\xbb\xbf<html>", "<head><title>x</title>", "plain text", "", "   ", "%PDF-1.7 junk", " %PDF", "%PD", "PK\x03\x04 not a zip", "PK\x05\x06", "<htm", "<?xml" + strings.Repeat(" ", 600) + "<html>",
			"<?xml " + strings.Repeat("a", 480) + "<html>", "\r\n<Html", "<!DOCTYPE svg>"}
		for _, s := range raws {
			data := []byte(s)
			got, err := format.DetectFromReader(bytes.NewReader(data), int64(len(data)))
			var ov V = RErr()
			if err == nil {
				ov = ROk(I(fmtCode(got)))
			}
			r.Case(L(I(1), L(I(0), VB(data))), ov, "detect:raw", false)
		}
		// ZIP member structures without full documents: mimetype variants, container only, prefixes only
		zs := [][]zipMember{
			{{Name: "mimetype", Data: []byte(" application/epub+zip\n")}},
			{{Name: "mimetype", Data: []byte("application/epub+zip2")}, {Name: "word/x", Data: nil}},
			{{Name: "mimetype", Data: []byte("application/vnd.oasis.opendocument.text-template")}},
			{{Name: "mimetype", Data: []byte("application/vnd.oasis.opendocument.spreadsheet")}, {Name: "content.xml"}},
			{{Name: "x"}, {Name: "META-INF/container.xml"}},
			{{Name: "[Content_Types].xml"}, {Name: "xl/a"}, {Name: "word/b"}},
			{{Name: "ppt/a"}, {Name: "xl/workbook.xml"}},
			{{Name: "word/a"}, {Name: "ppt/presentation.xml"}, {Name: "xl/workbook.xml"}},
			{{Name: "readme.txt"}},
			{{Name: "Word/document.xml"}},
			{{Name: "mimetype", Data: []byte("text/plain")}, {Name: "mimetype", Data: []byte("application/epub+zip")}},
			{},
		}
		for _, ms := range zs {
			for rep := 0; rep < 3; rep++ {
				m2 := shuffleMembers(rng, ms, false)
				d := c20Doc{zip: m2}
				if len(m2) == 0 {
					continue
				}
				data := writeZip(m2)
				got, err := format.DetectFromReader(bytes.NewReader(data), int64(len(data)))
				var ov V = RErr()
				if err == nil {
					ov = ROk(I(fmtCode(got)))
				}
				r.Case(L(I(1), c20ContentV(d, data)), ov, "detect:zip-structure", true)
			}
		}
		// 4. DRM
		algs := []string{"http://www.idpf.org/2008/embedding", "http://ns.adobe.com/pdf/enc#RC", "http://www.w3.org/2001/04/xmlenc#aes128-cbc", "http://www.w3.org/2001/04/xmlenc#aes256-cbc",
			"urn:unknown", "", "http://ns.adobe.com/obfuscation", "http://www.idpf.org/2008/obfuscation", "HTTP://WWW.IDPF.ORG/2008/EMBEDDING"}
		obf := func(a string) bool { return a == algs[0] || a == algs[1] || a == algs[6] || a == algs[7] }
		nE := 150
		if thorough {
			nE = 5000
		}
		for i := 0; i < nE; i++ {
			marker := fmt.Sprintf("book%d", i)
			base := mkEPUBSimple([]string{marker, "two"})
			// add a font and a stylesheet
			base = append(base, zipMember{Name: "OEBPS/fonts/f.otf", Data: []byte("font")}, zipMember{Name: "OEBPS/style.css", Data: []byte("p{}")})
			targets := []string{"OEBPS/ch1.xhtml", "OEBPS/ch2.xhtml", "OEBPS/fonts/f.otf", "OEBPS/style.css", "OEBPS/content.opf", "OEBPS/img/cover.jpg", "OEBPS/CH1.XHTML", "OEBPS/page.HTM"}
			var drm VL = VL{}
			wantDRM := false
			hasRights := rng.Chance(1, 8)
			encKind := rng.Intn(5) // 0 none, 1..3 entries, 4 unparsable
			var encXML string
			var entriesV VL = VL{}
			if encKind >= 1 && encKind <= 3 {
				var b strings.Builder
				b.WriteString(`<?xml version="1.0"?><encryption xmlns="urn:oasis:names:tc:opendocument:xmlns:container" xmlns:enc="http://www.w3.org/2001/04/xmlenc#">`)
				k := rng.Range(0, 4)
				for j := 0; j < k; j++ {
					a := algs[rng.Intn(len(algs))]
					u := targets[rng.Intn(len(targets))]
					fmt.Fprintf(&b, `<enc:EncryptedData><enc:EncryptionMethod Algorithm="%s"/><enc:CipherData><enc:CipherReference URI="%s"/></enc:CipherData></enc:EncryptedData>`, a, u)
					entriesV = append(entriesV, L(Bs(a), Bs(u)))
					lu := strings.ToLower(u)
					content := strings.HasSuffix(lu, ".xhtml") || strings.HasSuffix(lu, ".html") || strings.HasSuffix(lu, ".htm")
					if content && !obf(a) {
						wantDRM = true
					}
				}
				b.WriteString(`</encryption>`)
				encXML = b.String()
			} else if encKind == 4 {
				encXML = "<encryption><unclosed"
			}
			var extra []zipMember
			if encKind != 0 {
				extra = append(extra, zipMember{Name: "META-INF/encryption.xml", Data: []byte(encXML)})
			}
			if hasRights {
				extra = append(extra, zipMember{Name: "META-INF/rights.xml", Data: []byte("<rights/>")})
				wantDRM = true
			}
			all := append(base, extra...)
			all = shuffleMembers(rng, all, rng.Bool())
			for _, m := range all {
				switch m.Name {
				case "META-INF/rights.xml":
					drm = append(drm, L(I(0)))
				case "META-INF/encryption.xml":
					if encKind == 4 {
						drm = append(drm, L(I(1)))
					} else {
						drm = append(drm, L(I(2), entriesV))
					}
				default:
					drm = append(drm, L(I(3)))
				}
			}
			path := tmpFile(r, ".epub", writeZip(all))
			rd, err := epubdoc.Open(path)
			isDRM := err != nil && errors.Is(err, epubdoc.ErrDRMProtected)
			if rd != nil {
				rd.Close()
			}
			cv := L(I(3), drm)
			r.Case(cv, Bool(isDRM), "drm", encKind != 0 || hasRights)
			if encKind != 4 {
				if wantDRM {
					r.Check(isDRM, "drm-not-refused", "EPUB with a rights file or an encrypted content document opened", cv)
				} else {
					// stylesheets / package files encrypted with a real cipher are also refused by the code (stricter than the property); only check the obfuscation-only promise
					onlyObf := true
					for _, e := range entriesV {
						a := string(e.(VL)[0].(VB))
						if !obf(a) {
							onlyObf = false
						}
					}
					if onlyObf {
						r.Check(!isDRM && err == nil, "obfuscation-refused", fmt.Sprintf("font-obfuscation-only EPUB refused: %v", err), cv)
					}
				}
			}
			// the same bytes offered as a reader instead of a file name
			{
				zb := writeZip(all)
				rd2, err2 := epubdoc.OpenReader(bytes.NewReader(zb), int64(len(zb)))
				isDRM2 := err2 != nil && errors.Is(err2, epubdoc.ErrDRMProtected)
				if rd2 != nil {
					rd2.Close()
				}
				r.Check(isDRM2 == isDRM && (err2 == nil) == (err == nil), "drm-open-reader", fmt.Sprintf("epubdoc.Open says %v, epubdoc.OpenReader on the same bytes says %v", err, err2), cv)
			}
			// the same through the top-level API
			if i%10 == 0 {
				ext := tabula.Open(path)
				_, _, terr := ext.Text()
				ext.Close()
				r.Check((terr != nil && errors.Is(terr, epubdoc.ErrDRMProtected)) == isDRM, "drm-toplevel", "tabula.Open(f).Text() and epubdoc.Open disagree on DRM", cv)
			}
			os.Remove(path)
		}
	}
}
