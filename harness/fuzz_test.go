//go:build verif

package main

import (
	"fmt"
	"os"
	"path/filepath"
	"runtime"
	"testing"
	"time"
)

// Coverage-guided mutation for C02 (thorough tier): Go's native fuzzing engine
// mutates valid generated documents; the target runs every entry point on the
// mutant with a deadline and an allocation meter.  A panic, a missed deadline
// or an allocation far beyond the input fails the target; the engine stores the
// input under testdata/fuzz/<target>/ and ./check reports it as a violation.

func fuzzRun(t *testing.T, ext string, data []byte) {
	dir := t.TempDir()
	path := filepath.Join(dir, "in"+ext)
	if err := os.WriteFile(path, data, 0o644); err != nil {
		t.Skip()
	}
	entries := append([]string{}, c02Entries...)
	entries = append(entries, "raw")
	for _, e := range entries {
		var before, after runtime.MemStats
		runtime.ReadMemStats(&before)
		done := make(chan interface{}, 1)
		go func() {
			defer func() { done <- recover() }()
			c02Call(e, path)
		}()
		select {
		case p := <-done:
			if p != nil {
				t.Fatalf("%s panics: %v", e, p)
			}
		case <-time.After(15 * time.Second):
			t.Fatalf("%s does not return within 15 s", e)
		}
		runtime.ReadMemStats(&after)
		if d := after.TotalAlloc - before.TotalAlloc; d > 768<<20 {
			t.Fatalf("%s allocates %d bytes for an input of %d bytes", e, d, len(data))
		}
	}
}

func fuzzSeedsPDF(f *testing.F) {
	for seed := uint64(1); seed <= 12; seed++ {
		rng := NewRNG(seed * 7919)
		d := c01GenDoc(rng)
		f.Add(c01Physical(rng, &d))
	}
	for _, x := range c02Directed(NewRNG(5)) {
		if len(x.data) < 1<<16 {
			f.Add(x.data)
		}
	}
}

func FuzzPDF(f *testing.F) {
	fuzzSeedsPDF(f)
	f.Fuzz(func(t *testing.T, data []byte) { fuzzRun(t, ".pdf", data) })
}

func FuzzHTML(f *testing.F) {
	f.Add(mkHTMLSimple([]string{"a paragraph", "another one"}))
	for _, x := range c02DirectedOther() {
		if x[0].(string) == "html" && len(x[3].([]byte)) < 1<<14 {
			f.Add(x[3].([]byte))
		}
	}
	f.Fuzz(func(t *testing.T, data []byte) { fuzzRun(t, ".html", data) })
}

// the XML parts of the ZIP formats: the mutant replaces the main part of a valid container
func fuzzZip(f *testing.F, ext, member string, base []zipMember) {
	for _, m := range base {
		if m.Name == member {
			f.Add(m.Data)
		}
	}
	f.Fuzz(func(t *testing.T, data []byte) {
		ms := make([]zipMember, len(base))
		copy(ms, base)
		for i := range ms {
			if ms[i].Name == member {
				ms[i].Data = data
			}
		}
		fuzzRun(t, ext, writeZip(ms))
	})
}

func FuzzDOCX(f *testing.F) {
	fuzzZip(f, ".docx", "word/document.xml", mkDOCXSimple([]string{"one", "two"}))
}
func FuzzODT(f *testing.F) { fuzzZip(f, ".odt", "content.xml", mkODTSimple([]string{"one", "two"})) }
func FuzzXLSX(f *testing.F) {
	fuzzZip(f, ".xlsx", "xl/worksheets/sheet1.xml", mkXLSXSimple([]string{"one", "two"}))
}

var _ = fmt.Sprint
