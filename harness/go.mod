module verifharness

go 1.18

require (
	github.com/tsawler/tabula v0.0.0
	golang.org/x/net v0.20.0
	golang.org/x/text v0.16.0
)

require golang.org/x/image v0.18.0 // indirect

replace github.com/tsawler/tabula => /repo
