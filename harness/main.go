// verifharness: runs /repo's implementation on generated cases and writes, per
// property, the cases (input of the Coq model), the implementation's
// observables, the verdicts of the property evaluated on the implementation,
// and run statistics.
package main

import (
	"bufio"
	"crypto/sha256"
	"encoding/json"
	"flag"
	"fmt"
	"os"
	"path/filepath"
	"sort"
)

// Run collects one property run.
type Run struct {
	Prop    string
	Tier    string
	Seed    uint64
	OutDir  string
	cases   *bufio.Writer
	goOut   *bufio.Writer
	propOut *bufio.Writer
	files   []*os.File

	N          int
	distinct   map[[32]byte]bool
	Nontrivial int
	Dist       map[string]int
	Samples    []string
	PropChecks int
	PropFails  int
	Exhaustive bool
	Rule       string
	Notes      []string
}

func NewRun(prop, tier string, seed uint64, out string) *Run {
	r := &Run{Prop: prop, Tier: tier, Seed: seed, OutDir: out, distinct: map[[32]byte]bool{}, Dist: map[string]int{}}
	os.MkdirAll(out, 0o755)
	open := func(n string) *bufio.Writer {
		f, err := os.Create(filepath.Join(out, n))
		if err != nil {
			panic(err)
		}
		r.files = append(r.files, f)
		return bufio.NewWriterSize(f, 1<<20)
	}
	r.cases = open("cases.txt")
	r.goOut = open("go.txt")
	r.propOut = open("prop.txt")
	return r
}

// Case records one correspondence case: the model input, the implementation's
// observable, a distribution tag, and whether it is non-trivial.
func (r *Run) Case(in V, out V, tag string, nontrivial bool) {
	s := Str(in)
	r.cases.WriteString(s)
	r.cases.WriteByte('\n')
	r.goOut.WriteString(Str(out))
	r.goOut.WriteByte('\n')
	r.N++
	r.Dist[tag]++
	h := sha256.Sum256([]byte(s))
	if !r.distinct[h] {
		r.distinct[h] = true
		if nontrivial {
			r.Nontrivial++
		}
	}
	if len(r.Samples) < 6 && (r.N%97 == 1) {
		if len(s) > 400 {
			s = s[:400] + "..."
		}
		r.Samples = append(r.Samples, tag+": "+s)
	}
}

// Prop records a verdict of the property itself evaluated on the implementation.
// class identifies the failing input class (matched against known_findings.json).
func (r *Run) Check(ok bool, class string, desc string, replay V) {
	r.PropChecks++
	if ok {
		return
	}
	r.PropFails++
	rs := ""
	if replay != nil {
		rs = Str(replay)
	}
	b, _ := json.Marshal(map[string]string{"class": class, "desc": desc, "replay": rs})
	r.propOut.Write(b)
	r.propOut.WriteByte('\n')
}

func (r *Run) Close() {
	r.cases.Flush()
	r.goOut.Flush()
	r.propOut.Flush()
	for _, f := range r.files {
		f.Close()
	}
	keys := make([]string, 0, len(r.Dist))
	for k := range r.Dist {
		keys = append(keys, k)
	}
	sort.Strings(keys)
	st := map[string]interface{}{
		"evaluations":         r.N,
		"distinct":            len(r.distinct),
		"distinct_nontrivial": r.Nontrivial,
		"distribution":        r.Dist,
		"samples":             r.Samples,
		"prop_checks":         r.PropChecks,
		"prop_fails":          r.PropFails,
		"exhaustive":          r.Exhaustive,
		"rule":                r.Rule,
		"notes":               r.Notes,
	}
	b, _ := json.MarshalIndent(st, "", " ")
	os.WriteFile(filepath.Join(r.OutDir, "stats.json"), b, 0o644)
}

var props = map[string]func(r *Run, rng *RNG){}

func main() {
	if len(os.Args) > 1 && os.Args[1] == "c02worker" {
		c02Worker()
		return
	}
	tier := flag.String("tier", "quick", "quick|thorough")
	seed := flag.Uint64("seed", 1, "seed")
	out := flag.String("out", "", "output directory")
	flag.Parse()
	if flag.NArg() < 1 || *out == "" {
		fmt.Fprintln(os.Stderr, "usage: vh -tier T -seed S -out DIR <prop>")
		os.Exit(2)
	}
	p := flag.Arg(0)
	f, ok := props[p]
	if !ok {
		fmt.Fprintln(os.Stderr, "unknown property", p)
		os.Exit(2)
	}
	r := NewRun(p, *tier, *seed, *out)
	f(r, NewRNG(*seed*0x9E3779B97F4A7C15+uint64(len(p))))
	r.Close()
}
