package main

import (
	"bytes"
	"compress/zlib"
	"fmt"
	"sort"
	"strings"
)

// A small PDF writer for revision histories: plain objects, object streams,
// classic cross-reference tables and cross-reference streams chained by /Prev.

type pdfObj struct {
	num  int
	body string // the object's text between "obj" and "endobj" (for streams incl. the stream)
}

type pdfXrefEntry struct {
	num  int
	kind int // 0 free, 1 at offset, 2 in object stream
	a    int64
	b    int
}

type pdfRevision struct {
	plain   []pdfObj         // written as n 0 obj ... endobj
	packed  map[int][]pdfObj // object stream number -> members (bodies are plain objects)
	deleted []int            // object numbers freed in this revision
	xrefStm bool             // cross-reference stream instead of table
	hybrid  bool             // table + /XRefStm naming a cross-reference stream for the packed objects
	xrefNum int              // object number of the cross-reference stream
	flate   bool             // compress the cross-reference / object streams
	extra   string           // extra trailer entries
	widths  [3]int           // /W of a cross-reference stream
}

// pdfEOL: the end-of-line marker written between the structural parts of the file
// ("\n", "\r\n" or "\r"); after the stream keyword a lone CR is not allowed and LF is used.
var pdfEOL = "\n"

// pdfHeader: the first line of the file
var pdfHeader = "%PDF-1.7"

// pdfTight: no white space where delimiters make it unnecessary ("5 0 obj<<...>>endobj", "trailer<<...>>")
var pdfTight = false

// pdfComments: comment lines between the objects
var pdfComments = false

func pdfStreamEOL() string {
	if pdfEOL == "\r" {
		return "\n"
	}
	return pdfEOL
}

type pdfWritten struct {
	data     []byte
	sections [][]pdfXrefEntry // per revision, as written
	offsets  map[int64]int    // offset -> object number written there
}

func pdfStream(dict string, data []byte, flate bool) string {
	if flate {
		var b bytes.Buffer
		w := zlib.NewWriter(&b)
		w.Write(data)
		w.Close()
		data = b.Bytes()
		dict += " /Filter /FlateDecode"
	}
	return fmt.Sprintf("<< %s /Length %d >>%sstream%s%s%sendstream", dict, len(data), pdfEOL, pdfStreamEOL(), data, pdfEOL)
}

func pdfWrite(revs []pdfRevision) pdfWritten {
	var out bytes.Buffer
	w := pdfWritten{offsets: map[int64]int{}}
	nl := pdfEOL
	out.WriteString(pdfHeader + nl + "%\xe2\xe3\xcf\xd3" + nl)
	prev := int64(-1)
	size := 1
	for ri, rev := range revs {
		var entries []pdfXrefEntry
		if ri == 0 {
			entries = append(entries, pdfXrefEntry{0, 0, 0, 65535})
		}
		emit := func(num int, body string) {
			off := int64(out.Len())
			pre, post := nl, nl
			if pdfTight && len(body) > 1 && (body[0] == '<' || body[0] == '[') {
				pre = ""
				if c := body[len(body)-1]; c == '>' || c == ']' {
					post = ""
				}
			}
			if pdfComments && num%3 == 0 {
				fmt.Fprintf(&out, "%% a comment line with obj 1 0 R endobj xref in it%s", nl)
				off = int64(out.Len())
			}
			fmt.Fprintf(&out, "%d 0 obj%s%s%sendobj%s", num, pre, body, post, nl)
			entries = append(entries, pdfXrefEntry{num, 1, off, 0})
			w.offsets[off] = num
			if num >= size {
				size = num + 1
			}
		}
		for _, o := range rev.plain {
			emit(o.num, o.body)
		}
		var stmNums []int
		for k := range rev.packed {
			stmNums = append(stmNums, k)
		}
		sort.Ints(stmNums)
		for _, sn := range stmNums {
			members := rev.packed[sn]
			var hdr, body strings.Builder
			for i, m := range members {
				fmt.Fprintf(&hdr, "%d %d ", m.num, body.Len())
				body.WriteString(m.body)
				body.WriteString("\n")
				entries = append(entries, pdfXrefEntry{m.num, 2, int64(sn), i})
				if m.num >= size {
					size = m.num + 1
				}
			}
			h := hdr.String()
			emit(sn, pdfStream(fmt.Sprintf("/Type /ObjStm /N %d /First %d", len(members), len(h)), []byte(h+body.String()), rev.flate))
		}
		for _, d := range rev.deleted {
			entries = append(entries, pdfXrefEntry{d, 0, 0, 1})
			if d >= size {
				size = d + 1
			}
		}
		// xstream: a cross-reference stream object over the given entries, written here
		xstream := func(num int, ents []pdfXrefEntry, withPrev bool) {
			sort.SliceStable(ents, func(i, j int) bool { return ents[i].num < ents[j].num })
			var idx []string
			var data bytes.Buffer
			wd := rev.widths
			if wd == [3]int{} {
				wd = [3]int{1, 4, 2}
			}
			put := func(v int64, n int) {
				for k := n - 1; k >= 0; k-- {
					data.WriteByte(byte(v >> (8 * uint(k))))
				}
			}
			for i := 0; i < len(ents); {
				j := i
				for j+1 < len(ents) && ents[j+1].num == ents[j].num+1 {
					j++
				}
				idx = append(idx, fmt.Sprintf("%d %d", ents[i].num, j-i+1))
				for k := i; k <= j; k++ {
					e := ents[k]
					put(int64(e.kind), wd[0])
					put(e.a, wd[1])
					put(int64(e.b), wd[2])
				}
				i = j + 1
			}
			dict := fmt.Sprintf("/Type /XRef /Size %d /W [%d %d %d] /Index [%s]%s", size, wd[0], wd[1], wd[2], strings.Join(idx, " "), rev.extra)
			if withPrev && prev >= 0 {
				dict += fmt.Sprintf(" /Prev %d", prev)
			}
			fmt.Fprintf(&out, "%d 0 obj%s%s%sendobj%s", num, nl, pdfStream(dict, data.Bytes(), rev.flate), nl, nl)
		}
		hybridOff := int64(-1)
		var hiddenOfRev []pdfXrefEntry
		if rev.hybrid && !rev.xrefStm {
			// hybrid-reference file: the packed objects are listed in a cross-reference stream that the
			// trailer of the classic table names with /XRefStm; the table lists everything else
			if rev.xrefNum >= size {
				size = rev.xrefNum + 1
			}
			var hidden, shown []pdfXrefEntry
			for _, e := range entries {
				if e.kind == 2 {
					hidden = append(hidden, e)
				} else {
					shown = append(shown, e)
				}
			}
			hybridOff = int64(out.Len())
			w.offsets[hybridOff] = rev.xrefNum
			shown = append(shown, pdfXrefEntry{rev.xrefNum, 1, hybridOff, 0})
			xstream(rev.xrefNum, hidden, false)
			entries = shown
			// what a reader sees of this revision: the table, then the stream for what the table does not list
			hiddenOfRev = hidden
		}
		xrefOff := int64(out.Len())
		if rev.xrefStm {
			if rev.xrefNum >= size {
				size = rev.xrefNum + 1
			}
			entries = append(entries, pdfXrefEntry{rev.xrefNum, 1, xrefOff, 0})
			w.offsets[xrefOff] = rev.xrefNum
			xstream(rev.xrefNum, entries, true)
		} else {
			sort.SliceStable(entries, func(i, j int) bool { return entries[i].num < entries[j].num })
			out.WriteString("xref" + nl)
			enl := " \n" // cross-reference entries are 20 bytes: the line end is two bytes
			if nl == "\r\n" {
				enl = "\r\n"
			} else if nl == "\r" {
				enl = " \r"
			}
			for i := 0; i < len(entries); {
				j := i
				for j+1 < len(entries) && entries[j+1].num == entries[j].num+1 {
					j++
				}
				fmt.Fprintf(&out, "%d %d%s", entries[i].num, j-i+1, nl)
				for k := i; k <= j; k++ {
					e := entries[k]
					if e.kind == 0 {
						fmt.Fprintf(&out, "%010d %05d f%s", e.a, e.b, enl)
					} else {
						fmt.Fprintf(&out, "%010d %05d n%s", e.a, e.b, enl)
					}
				}
				i = j + 1
			}
			tr := fmt.Sprintf("/Size %d%s", size, rev.extra)
			if hybridOff >= 0 {
				tr += fmt.Sprintf(" /XRefStm %d", hybridOff)
			}
			if prev >= 0 {
				tr += fmt.Sprintf(" /Prev %d", prev)
			}
			if pdfTight {
				fmt.Fprintf(&out, "trailer<<%s>>%s", tr, nl)
			} else {
				fmt.Fprintf(&out, "trailer%s<< %s >>%s", nl, tr, nl)
			}
		}
		fmt.Fprintf(&out, "startxref%s%d%s%%%%EOF%s", nl, xrefOff, nl, nl)
		prev = xrefOff
		w.sections = append(w.sections, append(entries, hiddenOfRev...))
	}
	w.data = out.Bytes()
	return w
}
