package main

import (
	"fmt"
	"testing"

	"github.com/tsawler/tabula/layout"
)

func TestProbe09(t *testing.T) {
	rng := NewRNG(1)
	g := &c09gen{rng: rng}
	for it := 0; it < 40; it++ {
		p := g.page()
		if p.kind != "2col" && p.kind != "3col" {
			continue
		}
		res := layout.NewAnalyzer().Analyze(p.frags, p.w, p.h)
		var et []string
		for _, e := range res.Elements {
			et = append(et, c09Tok.FindAllString(e.Text, -1)...)
		}
		d := c09Diff(et, p.tokensDedup(), false)
		if d == "" {
			continue
		}
		fmt.Println("KIND", p.kind, "frags", len(p.frags), d)
		for _, e := range res.Elements {
			fmt.Printf("  EL type=%v %q\n", e.Type, e.Text)
		}
		if res.Headings != nil {
			for _, h := range res.Headings.Headings {
				fmt.Printf("  HEADING %q\n", h.Text)
			}
		}
		if res.Lists != nil {
			for _, l := range res.Lists.Lists {
				fmt.Printf("  LIST items=%d\n", len(l.Items))
				for _, it := range l.Items {
					fmt.Printf("     item %q\n", it.Text)
				}
			}
		}
		for _, pa := range res.Paragraphs.Paragraphs {
			fmt.Printf("  PARA %q\n", pa.Text)
		}
		break
	}
}
