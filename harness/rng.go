package main

// splitmix64: every random choice of a run derives from one state, so a case
// is reproducible from (seed, case index).
type RNG struct{ s uint64 }

func NewRNG(seed uint64) *RNG { return &RNG{s: seed} }

func (r *RNG) Next() uint64 {
	if r == nil {
		return 0
	}
	r.s += 0x9E3779B97F4A7C15
	z := r.s
	z = (z ^ (z >> 30)) * 0xBF58476D1CE4E5B9
	z = (z ^ (z >> 27)) * 0x94D049BB133111EB
	return z ^ (z >> 31)
}

func (r *RNG) Intn(n int) int {
	if n <= 0 {
		return 0
	}
	return int(r.Next() % uint64(n))
}

func (r *RNG) Range(lo, hi int) int { return lo + r.Intn(hi-lo+1) }
func (r *RNG) Bool() bool         { return r.Next()&1 == 1 }
func (r *RNG) Chance(num, den int) bool { return r.Intn(den) < num }
func (r *RNG) Bytes(n int) []byte {
	b := make([]byte, n)
	for i := range b {
		b[i] = byte(r.Next())
	}
	return b
}
func (r *RNG) Fork(tag uint64) *RNG { return &RNG{s: r.Next() ^ (tag * 0x9E3779B97F4A7C15)} }
