package main

import (
	"fmt"
	"math/big"
	"strings"
)

// V is the universal value exchanged with the Coq model (see coq/base/Val.v).
type V interface{ write(b *strings.Builder) }

type VI struct{ z *big.Int }
type VB []byte
type VL []V

func I(n int) V      { return VI{big.NewInt(int64(n))} }
func I64(n int64) V  { return VI{big.NewInt(n)} }
func Big(n *big.Int) V { return VI{n} }
func Bs(s string) V  { return VB([]byte(s)) }
func L(vs ...V) V    { return VL(vs) }
func Bool(b bool) V {
	if b {
		return I(1)
	}
	return I(0)
}

func (v VI) write(b *strings.Builder) { b.WriteString(v.z.String()) }
func (v VB) write(b *strings.Builder) {
	b.WriteByte('x')
	const hexd = "0123456789abcdef"
	for _, c := range v {
		b.WriteByte(hexd[c>>4])
		b.WriteByte(hexd[c&15])
	}
}
func (v VL) write(b *strings.Builder) {
	b.WriteByte('(')
	for i, e := range v {
		if i > 0 {
			b.WriteByte(' ')
		}
		e.write(b)
	}
	b.WriteByte(')')
}

func Str(v V) string {
	var b strings.Builder
	v.write(&b)
	return b.String()
}

// outcome encodings shared with val_of_res
func ROk(v V) V  { return L(I(0), v) }
func RErr() V    { return L(I(1)) }
func RPanic() V  { return L(I(2)) }
func RDiverge() V { return L(I(3)) }

var _ = fmt.Sprintf
