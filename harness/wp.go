package main

import (
	"fmt"
	"strings"
)

// Word-processor block model shared by the DOCX and ODT writers.
type wpInline struct {
	kind int    // 0 text, 1 tab, 2 line break, 3 symbol (docx w:sym), 4 hyperlink text (docx), 5 span (odt) / second run property
	text string // text, or hex char code for a symbol
}

type wpCell struct {
	paras  []string
	span   int // column span (>=1)
	vmerge int // docx: 0 none, 1 restart, 2 continue ; odt: rowspan given on the restart cell via rows
	rows   int // odt row span (>=1) on the origin cell
}

type wpBlock struct {
	kind    int // 0 paragraph, 1 heading, 2 list item, 3 table
	level   int // heading level 1..9 / list nesting 0..
	ordered bool
	inl     []wpInline
	table   [][]wpCell
	via     int    // heading: 0 built-in style id HeadingN, 1 custom style based on HeadingN, 2 style with outline level only
	listID  int    // which list (numId)
	rawDocx string // when set: the paragraph's inline XML, used instead of inl
	rawOdt  string
	useRaw  bool
}

func (b wpBlock) docxInner() string {
	if b.useRaw {
		return b.rawDocx
	}
	return docxRuns(b.inl)
}

func (b wpBlock) odtInner() string {
	if b.useRaw {
		return b.rawOdt
	}
	return odtInline(b.inl)
}

func wpText(b wpBlock) string {
	var s strings.Builder
	for _, in := range b.inl {
		switch in.kind {
		case 0, 4, 5:
			s.WriteString(in.text)
		case 1:
			s.WriteString("\t")
		case 2:
			s.WriteString("\n")
		}
	}
	return s.String()
}

func docxRuns(inl []wpInline) string {
	var b strings.Builder
	for _, in := range inl {
		switch in.kind {
		case 0, 5:
			fmt.Fprintf(&b, `<w:r><w:t xml:space="preserve">%s</w:t></w:r>`, xmlEsc(in.text))
		case 1:
			b.WriteString(`<w:r><w:tab/></w:r>`)
		case 2:
			b.WriteString(`<w:r><w:br/></w:r>`)
		case 3:
			fmt.Fprintf(&b, `<w:r><w:sym w:font="Wingdings" w:char="%s"/></w:r>`, in.text)
		case 4:
			fmt.Fprintf(&b, `<w:hyperlink r:id="rIdL"><w:r><w:t xml:space="preserve">%s</w:t></w:r></w:hyperlink>`, xmlEsc(in.text))
		}
	}
	return b.String()
}

func docxHeadingStyle(level, via int) string {
	switch via {
	case 1:
		return fmt.Sprintf("MyHead%d", level)
	case 2:
		return fmt.Sprintf("Outline%d", level)
	}
	return fmt.Sprintf("Heading%d", level)
}

// mkDOCXBlocks writes a DOCX package: body blocks in order, styles, numbering,
// optional header/footer parts.
func mkDOCXBlocks(blocks []wpBlock, header, footer string) []zipMember {
	var d strings.Builder
	d.WriteString(`<?xml version="1.0" encoding="UTF-8" standalone="yes"?><w:document xmlns:w="http://schemas.openxmlformats.org/wordprocessingml/2006/main" xmlns:r="http://schemas.openxmlformats.org/officeDocument/2006/relationships"><w:body>`)
	for _, b := range blocks {
		switch b.kind {
		case 0:
			if b.via == 3 {
				// an ordinary paragraph in a custom body style (shared with headings made by a direct outline level)
				fmt.Fprintf(&d, `<w:p><w:pPr><w:pStyle w:val="BodyCustom"/></w:pPr>%s</w:p>`, b.docxInner())
			} else {
				fmt.Fprintf(&d, `<w:p>%s</w:p>`, b.docxInner())
			}
		case 1:
			if b.via == 3 {
				// a heading by a direct outline level on a paragraph whose style is an ordinary body style
				fmt.Fprintf(&d, `<w:p><w:pPr><w:pStyle w:val="BodyCustom"/><w:outlineLvl w:val="%d"/></w:pPr>%s</w:p>`, b.level-1, b.docxInner())
			} else {
				fmt.Fprintf(&d, `<w:p><w:pPr><w:pStyle w:val="%s"/></w:pPr>%s</w:p>`, docxHeadingStyle(b.level, b.via), b.docxInner())
			}
		case 2:
			fmt.Fprintf(&d, `<w:p><w:pPr><w:pStyle w:val="ListParagraph"/><w:numPr><w:ilvl w:val="%d"/><w:numId w:val="%d"/></w:numPr></w:pPr>%s</w:p>`, b.level, b.listID, b.docxInner())
		case 3:
			d.WriteString(`<w:tbl><w:tblPr><w:tblW w:w="0" w:type="auto"/></w:tblPr><w:tblGrid>`)
			cols := 0
			for _, row := range b.table {
				n := 0
				for _, c := range row {
					n += c.span
				}
				if n > cols {
					cols = n
				}
			}
			for i := 0; i < cols; i++ {
				d.WriteString(`<w:gridCol w:w="2000"/>`)
			}
			d.WriteString(`</w:tblGrid>`)
			for _, row := range b.table {
				d.WriteString(`<w:tr>`)
				for _, c := range row {
					d.WriteString(`<w:tc><w:tcPr><w:tcW w:w="2000" w:type="dxa"/>`)
					if c.span > 1 {
						fmt.Fprintf(&d, `<w:gridSpan w:val="%d"/>`, c.span)
					}
					switch c.vmerge {
					case 1:
						d.WriteString(`<w:vMerge w:val="restart"/>`)
					case 2:
						d.WriteString(`<w:vMerge/>`)
					}
					d.WriteString(`</w:tcPr>`)
					if len(c.paras) == 0 {
						d.WriteString(`<w:p/>`)
					}
					for _, p := range c.paras {
						fmt.Fprintf(&d, `<w:p><w:r><w:t xml:space="preserve">%s</w:t></w:r></w:p>`, xmlEsc(p))
					}
					d.WriteString(`</w:tc>`)
				}
				d.WriteString(`</w:tr>`)
			}
			d.WriteString(`</w:tbl>`)
		}
	}
	d.WriteString(`<w:sectPr>`)
	if header != "" {
		d.WriteString(`<w:headerReference w:type="default" r:id="rIdH"/>`)
	}
	if footer != "" {
		d.WriteString(`<w:footerReference w:type="default" r:id="rIdF"/>`)
	}
	d.WriteString(`</w:sectPr></w:body></w:document>`)

	var st strings.Builder
	st.WriteString(`<?xml version="1.0" encoding="UTF-8" standalone="yes"?><w:styles xmlns:w="http://schemas.openxmlformats.org/wordprocessingml/2006/main"><w:style w:type="paragraph" w:default="1" w:styleId="Normal"><w:name w:val="Normal"/></w:style><w:style w:type="paragraph" w:styleId="ListParagraph"><w:name w:val="List Paragraph"/><w:basedOn w:val="Normal"/></w:style>`)
	// in every second package the heading styles are chained (heading N based on heading N-1, as some templates
	// have them) and carry no outline level of their own: a style based on heading N still is a heading of level N
	chained := len(blocks)%2 == 1
	for l := 1; l <= 9; l++ {
		if chained && l > 1 {
			fmt.Fprintf(&st, `<w:style w:type="paragraph" w:styleId="Heading%d"><w:name w:val="heading %d"/><w:basedOn w:val="Heading%d"/></w:style>`, l, l, l-1)
		} else {
			fmt.Fprintf(&st, `<w:style w:type="paragraph" w:styleId="Heading%d"><w:name w:val="heading %d"/><w:basedOn w:val="Normal"/><w:pPr><w:outlineLvl w:val="%d"/></w:pPr></w:style>`, l, l, l-1)
		}
		fmt.Fprintf(&st, `<w:style w:type="paragraph" w:styleId="MyHead%d"><w:name w:val="Chapter Style %c"/><w:basedOn w:val="Heading%d"/></w:style>`, l, 'A'+l, l)
		fmt.Fprintf(&st, `<w:style w:type="paragraph" w:styleId="Outline%d"><w:name w:val="Plain Outline %c"/><w:basedOn w:val="Normal"/><w:pPr><w:outlineLvl w:val="%d"/></w:pPr></w:style>`, l, 'A'+l, l-1)
	}
	st.WriteString(`<w:style w:type="paragraph" w:styleId="BodyCustom"><w:name w:val="Body Custom"/><w:basedOn w:val="Normal"/></w:style>`)
	st.WriteString(`</w:styles>`)

	var nm strings.Builder
	nm.WriteString(`<?xml version="1.0" encoding="UTF-8" standalone="yes"?><w:numbering xmlns:w="http://schemas.openxmlformats.org/wordprocessingml/2006/main">`)
	for _, kind := range []struct {
		id  int
		fmt string
	}{{1, "bullet"}, {2, "decimal"}} {
		fmt.Fprintf(&nm, `<w:abstractNum w:abstractNumId="%d">`, kind.id)
		for l := 0; l < 9; l++ {
			txt := "•"
			if kind.fmt == "decimal" {
				txt = fmt.Sprintf("%%%d.", l+1)
			}
			fmt.Fprintf(&nm, `<w:lvl w:ilvl="%d"><w:start w:val="1"/><w:numFmt w:val="%s"/><w:lvlText w:val="%s"/></w:lvl>`, l, kind.fmt, txt)
		}
		nm.WriteString(`</w:abstractNum>`)
	}
	// numId 1,3,5.. bullets ; 2,4,6.. decimal
	for id := 1; id <= 8; id++ {
		abs := 1
		if id%2 == 0 {
			abs = 2
		}
		fmt.Fprintf(&nm, `<w:num w:numId="%d"><w:abstractNumId w:val="%d"/></w:num>`, id, abs)
	}
	nm.WriteString(`</w:numbering>`)

	ct := `<?xml version="1.0" encoding="UTF-8"?><Types xmlns="http://schemas.openxmlformats.org/package/2006/content-types"><Default Extension="rels" ContentType="application/vnd.openxmlformats-package.relationships+xml"/><Default Extension="xml" ContentType="application/xml"/><Override PartName="/word/document.xml" ContentType="application/vnd.openxmlformats-officedocument.wordprocessingml.document.main+xml"/></Types>`
	rels := `<?xml version="1.0" encoding="UTF-8"?><Relationships xmlns="http://schemas.openxmlformats.org/package/2006/relationships"><Relationship Id="rIdS" Type="http://schemas.openxmlformats.org/officeDocument/2006/relationships/styles" Target="styles.xml"/><Relationship Id="rIdN" Type="http://schemas.openxmlformats.org/officeDocument/2006/relationships/numbering" Target="numbering.xml"/><Relationship Id="rIdL" Type="http://schemas.openxmlformats.org/officeDocument/2006/relationships/hyperlink" Target="http://example.com" TargetMode="External"/>`
	ms := []zipMember{
		{Name: "[Content_Types].xml", Data: []byte(ct)},
		{Name: "_rels/.rels", Data: []byte(`<?xml version="1.0" encoding="UTF-8"?><Relationships xmlns="http://schemas.openxmlformats.org/package/2006/relationships"><Relationship Id="rId1" Type="http://schemas.openxmlformats.org/officeDocument/2006/relationships/officeDocument" Target="word/document.xml"/></Relationships>`)},
		{Name: "word/document.xml", Data: []byte(d.String())},
		{Name: "word/styles.xml", Data: []byte(st.String())},
		{Name: "word/numbering.xml", Data: []byte(nm.String())},
	}
	if header != "" {
		rels += `<Relationship Id="rIdH" Type="http://schemas.openxmlformats.org/officeDocument/2006/relationships/header" Target="header1.xml"/>`
		ms = append(ms, zipMember{Name: "word/header1.xml", Data: []byte(`<?xml version="1.0" encoding="UTF-8"?><w:hdr xmlns:w="http://schemas.openxmlformats.org/wordprocessingml/2006/main"><w:p><w:r><w:t>` + xmlEsc(header) + `</w:t></w:r></w:p></w:hdr>`)})
	}
	if footer != "" {
		rels += `<Relationship Id="rIdF" Type="http://schemas.openxmlformats.org/officeDocument/2006/relationships/footer" Target="footer1.xml"/>`
		ms = append(ms, zipMember{Name: "word/footer1.xml", Data: []byte(`<?xml version="1.0" encoding="UTF-8"?><w:ftr xmlns:w="http://schemas.openxmlformats.org/wordprocessingml/2006/main"><w:p><w:r><w:t>` + xmlEsc(footer) + `</w:t></w:r></w:p></w:ftr>`)})
	}
	rels += `</Relationships>`
	ms = append(ms, zipMember{Name: "word/_rels/document.xml.rels", Data: []byte(rels)})
	return ms
}

func odtInline(inl []wpInline) string {
	var b strings.Builder
	for _, in := range inl {
		switch in.kind {
		case 0:
			b.WriteString(xmlEsc(in.text))
		case 1:
			b.WriteString(`<text:tab/>`)
		case 2:
			b.WriteString(`<text:line-break/>`)
		case 4:
			fmt.Fprintf(&b, `<text:a xlink:href="http://example.com">%s</text:a>`, xmlEsc(in.text))
		case 5:
			fmt.Fprintf(&b, `<text:span text:style-name="T1">%s</text:span>`, xmlEsc(in.text))
		}
	}
	return b.String()
}

// mkODTBlocks writes an ODT package with the same block model.
func mkODTBlocks(blocks []wpBlock) []zipMember { return mkODTBlocksHF(blocks, "", "") }

// mkODTBlocksHF also declares a master page with header and footer text.
func mkODTBlocksHF(blocks []wpBlock, header, footer string) []zipMember {
	var d strings.Builder
	d.WriteString(`<?xml version="1.0" encoding="UTF-8"?><office:document-content xmlns:office="urn:oasis:names:tc:opendocument:xmlns:office:1.0" xmlns:text="urn:oasis:names:tc:opendocument:xmlns:text:1.0" xmlns:table="urn:oasis:names:tc:opendocument:xmlns:table:1.0" xmlns:xlink="http://www.w3.org/1999/xlink" xmlns:style="urn:oasis:names:tc:opendocument:xmlns:style:1.0" office:version="1.2"><office:automatic-styles><style:style style:name="T1" style:family="text"/></office:automatic-styles><office:body><office:text>`)
	i := 0
	for i < len(blocks) {
		b := blocks[i]
		switch b.kind {
		case 0:
			fmt.Fprintf(&d, `<text:p text:style-name="Standard">%s</text:p>`, b.odtInner())
			i++
		case 1:
			// the explicit outline level is the heading's level, whatever level the paragraph style suggests
			styleLevel := b.level
			if b.via != 0 {
				styleLevel = (b.level+b.via)%6 + 1
			}
			fmt.Fprintf(&d, `<text:h text:style-name="Heading_20_%d" text:outline-level="%d">%s</text:h>`, styleLevel, b.level, b.odtInner())
			i++
		case 2:
			// a run of list items of the same list: nested text:list by level
			j := i
			for j < len(blocks) && blocks[j].kind == 2 && blocks[j].listID == b.listID {
				j++
			}
			items := blocks[i:j]
			var emit func(k int, level int) int
			emit = func(k int, level int) int {
				fmt.Fprintf(&d, `<text:list text:style-name="L%d">`, b.listID)
				for k < len(items) && items[k].level >= level {
					if items[k].level == level {
						fmt.Fprintf(&d, `<text:list-item><text:p>%s</text:p>`, items[k].odtInner())
						k++
						if k < len(items) && items[k].level > level {
							k = emit(k, level+1)
						}
						d.WriteString(`</text:list-item>`)
					} else {
						// deeper item without a parent at this level
						d.WriteString(`<text:list-item>`)
						k = emit(k, level+1)
						d.WriteString(`</text:list-item>`)
					}
				}
				d.WriteString(`</text:list>`)
				return k
			}
			emit(0, 0)
			i = j
		case 3:
			cols := 0
			for _, row := range b.table {
				n := 0
				for _, c := range row {
					n += c.span
				}
				if n > cols {
					cols = n
				}
			}
			fmt.Fprintf(&d, `<table:table table:name="T%d"><table:table-column table:number-columns-repeated="%d"/>`, i, cols)
			for _, row := range b.table {
				d.WriteString(`<table:table-row>`)
				for _, c := range row {
					d.WriteString(`<table:table-cell`)
					if c.span > 1 {
						fmt.Fprintf(&d, ` table:number-columns-spanned="%d"`, c.span)
					}
					if c.rows > 1 {
						fmt.Fprintf(&d, ` table:number-rows-spanned="%d"`, c.rows)
					}
					d.WriteString(`>`)
					for _, p := range c.paras {
						fmt.Fprintf(&d, `<text:p>%s</text:p>`, xmlEsc(p))
					}
					d.WriteString(`</table:table-cell>`)
					for k := 1; k < c.span; k++ {
						d.WriteString(`<table:covered-table-cell/>`)
					}
				}
				d.WriteString(`</table:table-row>`)
			}
			d.WriteString(`</table:table>`)
			i++
		}
	}
	d.WriteString(`</office:text></office:body></office:document-content>`)
	var st strings.Builder
	st.WriteString(`<?xml version="1.0" encoding="UTF-8"?><office:document-styles xmlns:office="urn:oasis:names:tc:opendocument:xmlns:office:1.0" xmlns:style="urn:oasis:names:tc:opendocument:xmlns:style:1.0" xmlns:text="urn:oasis:names:tc:opendocument:xmlns:text:1.0" office:version="1.2"><office:styles><style:style style:name="Standard" style:family="paragraph"/>`)
	for l := 1; l <= 9; l++ {
		fmt.Fprintf(&st, `<style:style style:name="Heading_20_%d" style:display-name="Heading %d" style:family="paragraph" style:default-outline-level="%d"/>`, l, l, l)
	}
	for id := 1; id <= 8; id++ {
		fmt.Fprintf(&st, `<text:list-style style:name="L%d">`, id)
		for l := 1; l <= 9; l++ {
			if id%2 == 0 {
				fmt.Fprintf(&st, `<text:list-level-style-number text:level="%d" style:num-format="1"/>`, l)
			} else {
				fmt.Fprintf(&st, `<text:list-level-style-bullet text:level="%d" text:bullet-char="•"/>`, l)
			}
		}
		st.WriteString(`</text:list-style>`)
	}
	st.WriteString(`</office:styles>`)
	if header != "" || footer != "" {
		st.WriteString(`<office:master-styles><style:master-page style:name="Standard">`)
		if header != "" {
			st.WriteString(`<style:header><text:p>` + xmlEsc(header) + `</text:p></style:header>`)
		}
		if footer != "" {
			st.WriteString(`<style:footer><text:p>` + xmlEsc(footer) + `</text:p></style:footer>`)
		}
		st.WriteString(`</style:master-page></office:master-styles>`)
	}
	st.WriteString(`</office:document-styles>`)
	return []zipMember{
		{Name: "mimetype", Data: []byte("application/vnd.oasis.opendocument.text"), Store: true},
		{Name: "META-INF/manifest.xml", Data: []byte(`<?xml version="1.0" encoding="UTF-8"?><manifest:manifest xmlns:manifest="urn:oasis:names:tc:opendocument:xmlns:manifest:1.0"><manifest:file-entry manifest:full-path="/" manifest:media-type="application/vnd.oasis.opendocument.text"/><manifest:file-entry manifest:full-path="content.xml" manifest:media-type="text/xml"/><manifest:file-entry manifest:full-path="styles.xml" manifest:media-type="text/xml"/></manifest:manifest>`)},
		{Name: "content.xml", Data: []byte(d.String())},
		{Name: "styles.xml", Data: []byte(st.String())},
	}
}
