package main

import (
	"bytes"
	"fmt"
	"strings"
)

// Minimal independent writers of the seven formats (valid documents with a
// given text), shared by several property generators.

func mkPDFSimple(pages []string) []byte {
	var b bytes.Buffer
	var offs []int
	obj := func(n int, body string) {
		for len(offs) <= n {
			offs = append(offs, 0)
		}
		offs[n] = b.Len()
		fmt.Fprintf(&b, "%d 0 obj\n%s\nendobj\n", n, body)
	}
	b.WriteString("%PDF-1.4\n%\xe2\xe3\xcf\xd3\n")
	np := len(pages)
	// 1 catalog, 2 pages, 3 font, then per page: page obj, content obj
	obj(1, "<< /Type /Catalog /Pages 2 0 R >>")
	var kids []string
	for i := range pages {
		kids = append(kids, fmt.Sprintf("%d 0 R", 4+2*i))
	}
	obj(2, fmt.Sprintf("<< /Type /Pages /Kids [%s] /Count %d >>", strings.Join(kids, " "), np))
	obj(3, "<< /Type /Font /Subtype /Type1 /BaseFont /Helvetica /Encoding /WinAnsiEncoding >>")
	for i, t := range pages {
		esc := strings.NewReplacer("\\", "\\\\", "(", "\\(", ")", "\\)").Replace(t)
		content := fmt.Sprintf("BT /F1 12 Tf 72 720 Td (%s) Tj ET", esc)
		obj(4+2*i, fmt.Sprintf("<< /Type /Page /Parent 2 0 R /MediaBox [0 0 612 792] /Resources << /Font << /F1 3 0 R >> >> /Contents %d 0 R >>", 5+2*i))
		obj(5+2*i, fmt.Sprintf("<< /Length %d >>\nstream\n%s\nendstream", len(content), content))
	}
	xref := b.Len()
	n := len(offs)
	fmt.Fprintf(&b, "xref\n0 %d\n0000000000 65535 f \n", n)
	for i := 1; i < n; i++ {
		fmt.Fprintf(&b, "%010d 00000 n \n", offs[i])
	}
	fmt.Fprintf(&b, "trailer\n<< /Size %d /Root 1 0 R >>\nstartxref\n%d\n%%%%EOF\n", n, xref)
	return b.Bytes()
}

const ctDOCX = `<?xml version="1.0" encoding="UTF-8"?><Types xmlns="http://schemas.openxmlformats.org/package/2006/content-types"><Default Extension="rels" ContentType="application/vnd.openxmlformats-package.relationships+xml"/><Default Extension="xml" ContentType="application/xml"/><Override PartName="/word/document.xml" ContentType="application/vnd.openxmlformats-officedocument.wordprocessingml.document.main+xml"/></Types>`

func mkDOCXSimple(paras []string) []zipMember {
	var d strings.Builder
	d.WriteString(`<?xml version="1.0" encoding="UTF-8" standalone="yes"?><w:document xmlns:w="http://schemas.openxmlformats.org/wordprocessingml/2006/main"><w:body>`)
	for _, p := range paras {
		fmt.Fprintf(&d, `<w:p><w:r><w:t xml:space="preserve">%s</w:t></w:r></w:p>`, xmlEsc(p))
	}
	d.WriteString(`</w:body></w:document>`)
	return []zipMember{
		{Name: "[Content_Types].xml", Data: []byte(ctDOCX)},
		{Name: "_rels/.rels", Data: []byte(`<?xml version="1.0" encoding="UTF-8"?><Relationships xmlns="http://schemas.openxmlformats.org/package/2006/relationships"><Relationship Id="rId1" Type="http://schemas.openxmlformats.org/officeDocument/2006/relationships/officeDocument" Target="word/document.xml"/></Relationships>`)},
		{Name: "word/document.xml", Data: []byte(d.String())},
	}
}

func mkODTSimple(paras []string) []zipMember {
	var d strings.Builder
	d.WriteString(`<?xml version="1.0" encoding="UTF-8"?><office:document-content xmlns:office="urn:oasis:names:tc:opendocument:xmlns:office:1.0" xmlns:text="urn:oasis:names:tc:opendocument:xmlns:text:1.0" xmlns:table="urn:oasis:names:tc:opendocument:xmlns:table:1.0" office:version="1.2"><office:body><office:text>`)
	for _, p := range paras {
		fmt.Fprintf(&d, `<text:p>%s</text:p>`, xmlEsc(p))
	}
	d.WriteString(`</office:text></office:body></office:document-content>`)
	return []zipMember{
		{Name: "mimetype", Data: []byte("application/vnd.oasis.opendocument.text"), Store: true},
		{Name: "META-INF/manifest.xml", Data: []byte(`<?xml version="1.0" encoding="UTF-8"?><manifest:manifest xmlns:manifest="urn:oasis:names:tc:opendocument:xmlns:manifest:1.0"><manifest:file-entry manifest:full-path="/" manifest:media-type="application/vnd.oasis.opendocument.text"/><manifest:file-entry manifest:full-path="content.xml" manifest:media-type="text/xml"/></manifest:manifest>`)},
		{Name: "content.xml", Data: []byte(d.String())},
	}
}

func pptxSlideXML(texts []string) string { return pptxSlideXMLTables(texts, nil) }

// pptxSlideXMLTables: text boxes followed by tables (graphic frames), each a grid of plain cells
func pptxSlideXMLTables(texts []string, tables [][][]string) string {
	var d strings.Builder
	d.WriteString(`<?xml version="1.0" encoding="UTF-8" standalone="yes"?><p:sld xmlns:a="http://schemas.openxmlformats.org/drawingml/2006/main" xmlns:p="http://schemas.openxmlformats.org/presentationml/2006/main" xmlns:r="http://schemas.openxmlformats.org/officeDocument/2006/relationships"><p:cSld><p:spTree><p:nvGrpSpPr><p:cNvPr id="1" name=""/><p:cNvGrpSpPr/><p:nvPr/></p:nvGrpSpPr><p:grpSpPr/>`)
	for i, t := range texts {
		fmt.Fprintf(&d, `<p:sp><p:nvSpPr><p:cNvPr id="%d" name="TextBox %d"/><p:cNvSpPr txBox="1"/><p:nvPr/></p:nvSpPr><p:spPr><a:xfrm><a:off x="100" y="%d"/><a:ext cx="1000" cy="300"/></a:xfrm></p:spPr><p:txBody><a:bodyPr/><a:p><a:r><a:t>%s</a:t></a:r></a:p></p:txBody></p:sp>`, i+2, i+2, 100+i*400, xmlEsc(t))
	}
	for ti, tb := range tables {
		fmt.Fprintf(&d, `<p:graphicFrame><p:nvGraphicFramePr><p:cNvPr id="%d" name="Table %d"/><p:cNvGraphicFramePr/><p:nvPr/></p:nvGraphicFramePr><p:xfrm><a:off x="100" y="%d"/><a:ext cx="4000" cy="900"/></p:xfrm><a:graphic><a:graphicData uri="http://schemas.openxmlformats.org/drawingml/2006/table"><a:tbl><a:tblGrid>`, 100+ti, ti+1, 3000+ti*1500)
		if len(tb) > 0 {
			for range tb[0] {
				d.WriteString(`<a:gridCol w="1000"/>`)
			}
		}
		d.WriteString(`</a:tblGrid>`)
		for _, row := range tb {
			d.WriteString(`<a:tr h="300">`)
			for _, c := range row {
				fmt.Fprintf(&d, `<a:tc><a:txBody><a:bodyPr/><a:p><a:r><a:t>%s</a:t></a:r></a:p></a:txBody><a:tcPr/></a:tc>`, xmlEsc(c))
			}
			d.WriteString(`</a:tr>`)
		}
		d.WriteString(`</a:tbl></a:graphicData></a:graphic></p:graphicFrame>`)
	}
	d.WriteString(`</p:spTree></p:cSld></p:sld>`)
	return d.String()
}

// slides[i] = texts on slide i; files[i] = part path of the slide in declared order
func mkPPTX(slides [][]string, files []string) []zipMember {
	var pres, rels, ct strings.Builder
	pres.WriteString(`<?xml version="1.0" encoding="UTF-8" standalone="yes"?><p:presentation xmlns:p="http://schemas.openxmlformats.org/presentationml/2006/main" xmlns:r="http://schemas.openxmlformats.org/officeDocument/2006/relationships"><p:sldIdLst>`)
	rels.WriteString(`<?xml version="1.0" encoding="UTF-8"?><Relationships xmlns="http://schemas.openxmlformats.org/package/2006/relationships">`)
	ct.WriteString(`<?xml version="1.0" encoding="UTF-8"?><Types xmlns="http://schemas.openxmlformats.org/package/2006/content-types"><Default Extension="rels" ContentType="application/vnd.openxmlformats-package.relationships+xml"/><Default Extension="xml" ContentType="application/xml"/><Override PartName="/ppt/presentation.xml" ContentType="application/vnd.openxmlformats-officedocument.presentationml.presentation.main+xml"/></Types>`)
	var ms []zipMember
	for i := range slides {
		fmt.Fprintf(&pres, `<p:sldId id="%d" r:id="rId%d"/>`, 256+i, 10+i)
		fmt.Fprintf(&rels, `<Relationship Id="rId%d" Type="http://schemas.openxmlformats.org/officeDocument/2006/relationships/slide" Target="%s"/>`, 10+i, strings.TrimPrefix(files[i], "ppt/"))
		ms = append(ms, zipMember{Name: files[i], Data: []byte(pptxSlideXML(slides[i]))})
	}
	pres.WriteString(`</p:sldIdLst></p:presentation>`)
	rels.WriteString(`</Relationships>`)
	all := []zipMember{
		{Name: "[Content_Types].xml", Data: []byte(ct.String())},
		{Name: "_rels/.rels", Data: []byte(`<?xml version="1.0" encoding="UTF-8"?><Relationships xmlns="http://schemas.openxmlformats.org/package/2006/relationships"><Relationship Id="rId1" Type="http://schemas.openxmlformats.org/officeDocument/2006/relationships/officeDocument" Target="ppt/presentation.xml"/></Relationships>`)},
		{Name: "ppt/presentation.xml", Data: []byte(pres.String())},
		{Name: "ppt/_rels/presentation.xml.rels", Data: []byte(rels.String())},
	}
	return append(all, ms...)
}

func mkPPTXSimple(slides []string) []zipMember {
	var ss [][]string
	var fs []string
	for i, s := range slides {
		ss = append(ss, []string{s})
		fs = append(fs, fmt.Sprintf("ppt/slides/slide%d.xml", i+1))
	}
	return mkPPTX(ss, fs)
}

func xhtmlDoc(title, body string) string {
	return `<?xml version="1.0" encoding="UTF-8"?><!DOCTYPE html><html xmlns="http://www.w3.org/1999/xhtml"><head><title>` + xmlEsc(title) + `</title></head><body>` + body + `</body></html>`
}

type epubItem struct {
	id, href, mediaType string
	data                []byte
	inSpine             bool
}

// mkEPUB: opfPath e.g. "OEBPS/content.opf"; hrefs are relative to the OPF directory
func mkEPUB(opfPath string, items []epubItem, spine []string, extra []zipMember, withMimetype bool) []zipMember {
	var opf strings.Builder
	opf.WriteString(`<?xml version="1.0" encoding="UTF-8"?><package xmlns="http://www.idpf.org/2007/opf" version="3.0" unique-identifier="uid"><metadata xmlns:dc="http://purl.org/dc/elements/1.1/"><dc:identifier id="uid">urn:uuid:1234</dc:identifier><dc:title>Book</dc:title><dc:language>en</dc:language></metadata><manifest>`)
	for _, it := range items {
		fmt.Fprintf(&opf, `<item id="%s" href="%s" media-type="%s"/>`, it.id, xmlEsc(it.href), it.mediaType)
	}
	opf.WriteString(`</manifest><spine>`)
	for _, id := range spine {
		// "id|no": an auxiliary item (linear="no"); it keeps its place in the reading order
		if strings.HasSuffix(id, "|no") {
			fmt.Fprintf(&opf, `<itemref idref="%s" linear="no"/>`, strings.TrimSuffix(id, "|no"))
		} else if strings.HasSuffix(id, "|yes") {
			fmt.Fprintf(&opf, `<itemref idref="%s" linear="yes"/>`, strings.TrimSuffix(id, "|yes"))
		} else {
			fmt.Fprintf(&opf, `<itemref idref="%s"/>`, id)
		}
	}
	opf.WriteString(`</spine></package>`)
	var ms []zipMember
	if withMimetype {
		ms = append(ms, zipMember{Name: "mimetype", Data: []byte("application/epub+zip"), Store: true})
	}
	ms = append(ms, zipMember{Name: "META-INF/container.xml", Data: []byte(`<?xml version="1.0"?><container version="1.0" xmlns="urn:oasis:names:tc:opendocument:xmlns:container"><rootfiles><rootfile full-path="` + opfPath + `" media-type="application/oebps-package+xml"/></rootfiles></container>`)})
	ms = append(ms, zipMember{Name: opfPath, Data: []byte(opf.String())})
	ms = append(ms, extra...)
	return ms
}

func mkEPUBSimple(chapters []string) []zipMember {
	var items []epubItem
	var spine []string
	var extra []zipMember
	for i, c := range chapters {
		id := fmt.Sprintf("ch%d", i+1)
		href := fmt.Sprintf("ch%d.xhtml", i+1)
		items = append(items, epubItem{id: id, href: href, mediaType: "application/xhtml+xml"})
		spine = append(spine, id)
		extra = append(extra, zipMember{Name: "OEBPS/" + href, Data: []byte(xhtmlDoc("c", "<p>"+xmlEsc(c)+"</p>"))})
	}
	return mkEPUB("OEBPS/content.opf", items, spine, extra, true)
}

func mkHTMLSimple(paras []string) []byte {
	var b strings.Builder
	b.WriteString("<!DOCTYPE html>\n<html><head><title>t</title></head><body>")
	for _, p := range paras {
		b.WriteString("<p>" + xmlEsc(p) + "</p>")
	}
	b.WriteString("</body></html>")
	return []byte(b.String())
}

func mkXLSXSimple(cells []string) []zipMember {
	var rows []c17Row
	for i, c := range cells {
		t := c
		rows = append(rows, c17Row{r: i + 1, cells: []c17Cell{{ref: refOf(0, i), t: "inlineStr", is: &t}}})
	}
	return c17WorkbookMembers([]c17Sheet{{name: "Sheet1", rows: rows}}, nil)
}

type pdfLine struct {
	x, y int
	size int
	text string
	font int // 0 or 1: /F1 (WinAnsi), 2: /F2 (MacRoman), 3: /F3 (Differences)
}

// pdfLinesFontExtra: further entries of the /F1 font dictionary written by mkPDFLines
var pdfLinesFontExtra = ""

// mkPDFLines: one content stream per page with absolutely positioned lines (Tm)
func mkPDFLines(pages [][]pdfLine, width, height int) []byte {
	var b bytes.Buffer
	var offs []int
	obj := func(n int, body string) {
		for len(offs) <= n {
			offs = append(offs, 0)
		}
		offs[n] = b.Len()
		fmt.Fprintf(&b, "%d 0 obj\n%s\nendobj\n", n, body)
	}
	b.WriteString("%PDF-1.4\n%\xe2\xe3\xcf\xd3\n")
	obj(1, "<< /Type /Catalog /Pages 2 0 R >>")
	var kids []string
	for i := range pages {
		kids = append(kids, fmt.Sprintf("%d 0 R", 4+2*i))
	}
	obj(2, fmt.Sprintf("<< /Type /Pages /Kids [%s] /Count %d >>", strings.Join(kids, " "), len(pages)))
	obj(3, "<< /Type /Font /Subtype /Type1 /BaseFont /Helvetica /Encoding /WinAnsiEncoding"+pdfLinesFontExtra+" >>")
	esc := strings.NewReplacer("\\", "\\\\", "(", "\\(", ")", "\\)")
	fontRes := "/F1 3 0 R"
	multi := false
	for _, lines := range pages {
		for _, l := range lines {
			if l.font > 1 {
				multi = true
			}
		}
	}
	if multi {
		base := 4 + 2*len(pages)
		obj(base, "<< /Type /Font /Subtype /Type1 /BaseFont /Times-Roman /Encoding /MacRomanEncoding >>")
		obj(base+1, "<< /Type /Font /Subtype /Type1 /BaseFont /Courier /Encoding << /Type /Encoding /BaseEncoding /WinAnsiEncoding /Differences [65 /alpha /beta 233 /Omega] >> >>")
		fontRes = fmt.Sprintf("/F1 3 0 R /F2 %d 0 R /F3 %d 0 R", base, base+1)
	}
	for i, lines := range pages {
		var c strings.Builder
		c.WriteString("BT\n")
		for _, l := range lines {
			sz := l.size
			if sz == 0 {
				sz = 12
			}
			fn := l.font
			if fn == 0 {
				fn = 1
			}
			fmt.Fprintf(&c, "/F%d %d Tf 1 0 0 1 %d %d Tm (%s) Tj\n", fn, sz, l.x, l.y, esc.Replace(l.text))
		}
		c.WriteString("ET")
		content := c.String()
		obj(4+2*i, fmt.Sprintf("<< /Type /Page /Parent 2 0 R /MediaBox [0 0 %d %d] /Resources << /Font << %s >> >> /Contents %d 0 R >>", width, height, fontRes, 5+2*i))
		obj(5+2*i, fmt.Sprintf("<< /Length %d >>\nstream\n%s\nendstream", len(content), content))
	}
	xref := b.Len()
	n := len(offs)
	fmt.Fprintf(&b, "xref\n0 %d\n0000000000 65535 f \n", n)
	for i := 1; i < n; i++ {
		fmt.Fprintf(&b, "%010d 00000 n \n", offs[i])
	}
	fmt.Fprintf(&b, "trailer\n<< /Size %d /Root 1 0 R >>\nstartxref\n%d\n%%%%EOF\n", n, xref)
	return b.Bytes()
}
