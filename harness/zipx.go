package main

import (
	"archive/zip"
	"bytes"
	"os"
	"path/filepath"
	"strings"
)

// zipMember / writeZip: minimal package writer used by the OOXML/ODT/EPUB generators.
type zipMember struct {
	Name  string
	Data  []byte
	Store bool
}

func writeZip(ms []zipMember) []byte {
	var b bytes.Buffer
	w := zip.NewWriter(&b)
	for _, m := range ms {
		method := zip.Deflate
		if m.Store {
			method = zip.Store
		}
		f, err := w.CreateHeader(&zip.FileHeader{Name: m.Name, Method: method})
		if err != nil {
			panic(err)
		}
		f.Write(m.Data)
	}
	w.Close()
	return b.Bytes()
}

var tmpCounter int

func tmpFile(r *Run, ext string, data []byte) string {
	dir := filepath.Join(r.OutDir, "tmp")
	os.MkdirAll(dir, 0o755)
	tmpCounter++
	p := filepath.Join(dir, "f"+itoa(tmpCounter)+ext)
	if err := os.WriteFile(p, data, 0o644); err != nil {
		panic(err)
	}
	return p
}

func itoa(n int) string {
	if n == 0 {
		return "0"
	}
	neg := n < 0
	if neg {
		n = -n
	}
	var d []byte
	for n > 0 {
		d = append([]byte{byte('0' + n%10)}, d...)
		n /= 10
	}
	if neg {
		return "-" + string(d)
	}
	return string(d)
}

func xmlEsc(s string) string {
	var b strings.Builder
	for _, r := range s {
		switch r {
		case '<':
			b.WriteString("&lt;")
		case '>':
			b.WriteString("&gt;")
		case '&':
			b.WriteString("&amp;")
		case '"':
			b.WriteString("&quot;")
		case '\t':
			b.WriteString("&#9;")
		case '\n':
			b.WriteString("&#10;")
		default:
			b.WriteRune(r)
		}
	}
	return b.String()
}
