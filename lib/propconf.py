# per-property configuration of ./check
PROPS = {
    "C05": dict(
        gen=["filters"],
        trusted=[
            "compress/zlib is an oracle: section hypothesis inflate (deflate x) = Ok x (premise of the chain theorems); in the correspondence run the real zlib's results are passed to the model as a lookup table",
            "modelled: internal/filters ASCIIHexDecode, ASCII85Decode, applyPredictor, applyTIFFPredictor2, applyPNGPredictor, decodePNGRow, paethPredictor, getIntParam; core Stream.Decode, decodeWithFilter (name table regenerated), paramsObjToDict, dictToParams. Not covered: CCITTFaxDecode, DCT/JPX pass-through contents",
        ],
        assumptions=["Real-valued DecodeParms entries are projected to their truncated integer by the harness (getIntParam does int(float64))"],
    ),
    "C17": dict(
        gen=[],
        trusted=[
            "encoding/xml (unmarshalling of worksheet/sharedStrings parts) and archive/zip are oracles: the model receives the abstract rows/cells the harness wrote; number formatting (formatNumber) is the identity in the code and in the model",
            "modelled: xlsx ParseCellRef, ColumnToIndex, IndexToColumn, CellRef, ParseRangeRef, parseWorksheet (dimension pass, dense grid, placement, type switch, merge marking), parseSharedStrings (plain/rich), TextWithOptions for one sheet, findContentBounds+sheetToTable. Go int overflow of ColumnToIndex beyond 13 letters is not modelled (unbounded Z)",
        ],
        assumptions=["non-ASCII column strings are outside the byte-level model of strings.ToUpper"],
        timeout=3000,
    ),
    "C08": dict(
        gen=[],
        trusted=[
            "binary64 rounding is outside every theorem: the model is over Z and the correspondence uses integer operands whose intermediate values stay far below 2^53 (exact in float64)",
            "the advance of a shown string depends on font metrics: positions are compared only at a show that follows a positioning operator (model flag g_clean), as the property states",
            "modelled: model.Matrix Multiply/Transform/Translate/Identity; graphicsstate Transform, Save, Restore, Clone, BeginText, SetTextMatrix, TranslateText, TranslateTextSetLeading, NextLine, SetLeading, GetTextPosition, GetEffectiveFontSize; text.Extractor.processOperation dispatch for q Q cm BT ET Tf Tm Td TD T* TL Tc Tw Tz Tj ' \" Do and invokeXObject's Save/Transform(/Matrix)/Restore bracket; text rise (Ts) not modelled",
        ],
        assumptions=["font size compared when the CTM's vertical scale is rational (perfect square), else both sides report -1"],
    ),
    "C13": dict(
        gen=[],
        trusted=[
            "characters are bytes in this code (len(text)); TokensPerChar is modelled as a rational p/q and the correspondence uses dyadic ratios (1/4, 1/2, 1/8, 1) for which the float64 products are exact",
            "modelled byte-exactly: SizeCalculator.SplitToSize with nil boundaries, FindSplitPointAt, findSentenceEndNear, findWordBoundaryNear (with the rune-boundary fallback), the pull-back to a hard character/token maximum, strings.TrimSpace over the 25 Unicode White_Space code points; termination/conservation/UTF-8 theorems quantify over every size predicate, hence cover the word/sentence/paragraph units whose counters are not modelled",
            "overlap is modelled byte-exactly (coq/model/C13_Overlap.v): OverlapGenerator.GenerateOverlap with characterTail (byte offset, forward to a character start, word preservation, TrimSpace), generateSentenceOverlap / splitIntoSentencesWithPositions, generateParagraphOverlap / splitIntoParagraphs, truncateOverlap, the MinOverlap / MaxOverlap rules and the character fallback, and ApplyOverlapToChunks without heading context. Which runes end a sentence (isSentenceEndRune: letter case, abbreviations, decimal points) is an ORACLE, one bit per rune of the string, read off the implementation through the hook rag.VerifSentenceEnds for the chunk text and for the overlap before truncation; the theorems hold for every oracle. DecodeRuneInString is modelled on valid UTF-8 only (the theorems assume valid_utf8 text, the harness sends valid texts); SentenceCount of the result and IncludeHeadingContext are not modelled",
        ],
        assumptions=["semantic boundaries passed by callers (non-nil boundaries argument) are outside the model"],
    ),
    "C20": dict(
        gen=["format"],
        trusted=[
            "archive/zip (member list) and encoding/xml (encryption.xml) are oracles: the model sees the member names in archive order, the mimetype content and the (algorithm, URI) entries the harness wrote; a ZIP signature on an unreadable archive is the Err outcome",
            "strings.ToUpper/ToLower are modelled on ASCII (signatures and URIs in the generators are ASCII); strings.TrimSpace is the C13 model",
            "modelled: format.Detect (extension table regenerated), DetectFromReader, detectHTMLMagic, detectZIPFormat (mimetype, container, main-part and prefix passes), Extractor.validateFormat admission rule, epubdoc.checkForDRM/hasEncryptedContent/isFontObfuscation/isContentFile (suffix list regenerated). The readers' own Open after admission is not modelled (observed through Text() in the property predicates)",
        ],
        assumptions=[],
    ),
    "C11": dict(
        gen=["hf"],
        trusted=[
            "coordinates are integers in the model and in the correspondence (exact in binary64); the scale contentHeight/pageHeight is a rational in the model and the generator uses page height 512 for content beyond the page so the float scale is exact",
            "modelled: HeaderFooterDetector.Detect (extractCandidates, findRepeatingPatterns, hasConsistentPosition, normalizeForComparison, isPageNumberPattern with the regenerated pattern list, containsPageNumberPattern) for pages that are not character-level, and HeaderFooterResult.FilterFragments/isInHeaderFooter/textsMatch/containsPage completely (character-level flag included). Not modelled: preprocessPages/assembleFragmentsIntoLines for character-level pages (property predicates on the implementation only); confidence values (they only order the regions, proved irrelevant); strings.EqualFold beyond ASCII",
            "regexp \\d+ is modelled as ASCII digit runs",
        ],
        assumptions=["the per-page guess of a flipped Y axis (content exceeding the page) is modelled as written; the running-header predicate of the harness is evaluated on ordinary PDF coordinates only"],
    ),
    "C14": dict(
        gen=[],
        trusted=[
            "encoding/json's text layer is an oracle (json_parse(json_print v) = v on valid UTF-8): the model produces the JSON value of each record (struct fields with omitempty, metadata map) and the harness compares it with Go's output parsed by encoding/json; encoding/csv.Writer is modelled byte-exactly (UseCRLF=false) and compared byte for byte",
            "the RFC 4180 reader is my transcription of the RFC (quoted fields may contain the delimiter, doubled quotes, CR, LF; LF or CRLF ends a record); it is extracted and also run on the implementation's output, and cross-checked against a second reader written in Go",
            "modelled: Exporter.prepareChunkForExport, chunkMetadataToMap, filterMetadata, collectCSVColumns, isStandardColumn, chunkToCSVRow, getColumnValue, formatValue, exportCSV; BatchExporter.Export; ChunkCollection.Filter and FilterByPage/PageRange/Section/MinTokens/MaxTokens/WithTables/WithLists/WithImages. Not modelled (property predicates on the implementation only): StreamExporter, EmbeddingExporter record builders, Search, FilterByElementType",
        ],
        assumptions=["chunk strings are valid UTF-8 (invalid bytes would be replaced by U+FFFD in JSON)"],
    ),
    "C10": dict(
        gen=[],
        trusted=[
            "OS descriptor semantics are abstracted as a table of open handles: one handle per successful reader open (PDF os.File, ZIP reader); the tie is the count of entries in /proc/self/fd after every operation of generated sequences",
            "modelled: Extractor.Pages, PageRange, resolvePages, the page-join rule of Text, page-number stamping of Document(), clone/ensureReader/Close and the defer Close of terminal operations (Text, Chunks, Document, Fragments...). The per-page text extraction itself is not modelled here (C01/C08/C09); validateFormat is C20",
        ],
        assumptions=["ocr client sharing between clones is not modelled (tesseract is not available offline)"],
    ),
    "C15": dict(
        gen=[],
        trusted=[
            "the GFM pipe-table reader is my transcription of GFM spec 4.10 with the cell scanning of the reference implementation cmark-gfm (a backslash followed by ASCII punctuation is one escaped character; \\| is unescaped to |; cells are trimmed; short rows are padded); it is extracted and run on the implementation's output and cross-checked against a second reader written in Go",
            "modelled byte-exactly: model.Table.ToMarkdown, docx and odt ParsedTable.ToMarkdown (spans, merged-away cells, padding), xlsx and pptx Table.ToMarkdown + escapeMarkdown, htmldoc ParsedTable.ToMarkdown + escapeMarkdown, the heading-level arithmetic of docx/odt MarkdownWithRAGOptions and rag Chunk.ToMarkdownWithOptions. The read-back theorem is proved for the xlsx / model.Table / pptx writers; docx/odt/htmldoc tables are tied by correspondence and by the readers run on their output (their rows differ only in padding cells and separator spelling)",
            "NOT covered: list-item emission (docx/odt/htmldoc lists), table-of-contents and front-matter generation, the element walk of each MarkdownWithRAGOptions; heading offset/maximum are ignored by the htmldoc, pptx and xlsx Markdown writers (not examined by this check)",
        ],
        assumptions=["inline Markdown inside cell text (emphasis, code spans) is outside the table-level reading"],
    ),
    "C18": dict(
        gen=[],
        trusted=[
            "archive/zip (member list, member content) and encoding/xml (workbook.xml, presentation.xml, *.rels, container.xml, OPF) are oracles: the model sees the member names in archive order with an opaque content token per part and the declarations the harness wrote",
            "modelled: xlsx parseRelationships/parseWorksheets target normalisation and skipping of unreadable sheets; pptx declaredSlideFiles/parseSlides (slide list -> relationship -> path.Clean); epubdoc parseOPF base directory, loadChapters, resolveHref (url.PathUnescape, path.Join/Clean); path.Clean and percent-decoding are modelled and compared with the Go library on awkward inputs. Not modelled: the pptx fallback to file-name order when the presentation declares nothing; EPUB navigation documents (NCX / nav)",
        ],
        assumptions=[],
    ),
    "C16": dict(
        gen=[],
        trusted=[
            "encoding/xml is an oracle twice over: tokenisation (the model sees start / end / text events with local element names mapped to the codes of C16_Docs.v and the one attribute each walker reads) and the struct-tag path matching that fills bodyXML's four slices (modelled as a path stack, compared with the counts the unmarshaller produces through the verif hook VerifBodyCounts)",
            "modelled after the code: docx.paragraphInlineText + parseSymbolChar, odt.inlineText, docx parseBodyElementsInOrder, docx StyleResolver.Resolve/buildInheritanceChain (heading level only; detectHeading's own-style markers are inputs: outline level or a name starting with heading), docx/odt parseCell text joining, docx processVerticalMerges, odt processRowSpans, ToModelTable of both, the list grouping and empty-paragraph dropping of docx/odt Reader.Document(). verif hooks VerifParagraphInlineText, VerifInlineText, VerifBodyOrder call the unexported functions directly",
            "NOT modelled: Text() and Markdown rendering of the two readers (checked by property predicates on the implementation: anchor order, heading marks, list indentation, header/footer leak), numbering formats and bullets, run formatting, ODT list-level parsing (text:list nesting -> level; tied end-to-end only through the generated packages), the bold/size heading heuristic of detectHeading, nested block-level content controls",
            "the row span a vertical merge gives its start cell and the column at which an ODT cell lands under row spans from above are tied by correspondence and by an independent occupancy-grid oracle in the harness, not by a theorem (vertical_merges_keep_text_spans_and_order_partial states what is proved)",
        ],
        assumptions=["documents are well-formed XML; no element named body occurs below the body element (the depth counter of the order pass is not adjusted for it)"],
    ),
    "C12": dict(
        gen=[],
        trusted=[
            "modelled after the code: rag.DocumentChunker.ChunkDocument / chunkPage / textBlockToChunks / createTextChunk / createHeadingChunk / createChunkFromHeading / createListChunk / createTableChunk / createImageChunk, isHeadingElement, getHeadingLevel, enterSection; splitting of oversized text blocks is the C13 model (SizeCalculator.SplitToSize for character and token maxima, DefaultSizeConfig otherwise); rag.Chunker.buildSections and the depth-first walk of Chunk (through the verif hook VerifSections)",
            "model.Table.ToMarkdown is an oracle for table chunks (its text is passed to the model; C15 covers it); the harness checks that every cell text is in it",
            "NOT modelled: rag.Chunker.chunkSection / splitSectionByParagraphs / splitBySentences / orphan merging / atomic blocks / list-intro detection of the section chunker: their chunks are checked by property predicates on the implementation only (indices, totals, identifiers, every content anchor once and in order, section path against an independently computed enclosing chain, page range against the pages of the chunk's own content); ChunkWithOverlapEnabled; chunk statistics; bounding boxes",
            "document order for the section chunker is the order page.Layout gives: per page its headings, then its paragraphs, then its lists (PageLayout carries no interleaving of the three lists)",
        ],
        assumptions=["page.Elements hold only Heading, Paragraph, List, Table and Image elements (others are skipped by the chunker)"],
    ),
    "C19": dict(
        gen=[],
        trusted=[
            "golang.org/x/net/html is the oracle for tree construction (including the repair of unclosed and misnested markup) and entity decoding: the harness parses the same bytes with the same library and hands the model the body subtree (element names as the codes of C19_Html.v, the attributes role/class/id/rowspan/colspan, text nodes)",
            "modelled after the code: htmldoc traverseNodeFiltered with its list state (pending items, in-list flag, level, ordered flag), flushPendingList, getTextContent(Recursive), getDirectTextContent, isBlockContainer, shouldSkipElement, parseTable/parseTableRows/parseTableRow (span parsing for digit strings), extractBodyWithMode, exclusionChecker.shouldExclude/shouldExcludeExplicit/isTopLevel/detectTopLevelWrapper/shouldExcludeByPattern/shouldExcludeByLinkDensity, textLength/linkTextLength/countLinks, the presentation of elements by DocumentWithOptions (code and quotes as paragraphs, tables padded to the longest row). strings.TrimSpace is the C13 model",
            "the class/id regular expression is modelled as a word-boundary matcher over ASCII names and compared with the implementation on the vocabulary and its neighbourhood (290 names); non-ASCII letters that case-fold into a-z (U+212A, U+017F) are not generated",
            "the link-density threshold density > 0.6 is modelled as 5*linkLen > 3*textLen (exact for lengths below 2^50)",
            "NOT modelled: TextWithOptions/Markdown rendering (checked by predicates: file, string and EPUB chapter entry points agree, repeated and interleaved mode queries on one reader agree), extractHead/metadata, links as elements",
        ],
        assumptions=["element and attribute names as produced by the HTML parser (lower case)"],
    ),
    "C07": dict(
        gen=["encodings"],
        trusted=[
            "translated from the source on every run (tools/gotrans, generator encodings): the six [256]rune tables of font/encoding.go, the name and table of each standardEncoding variable, and the name dispatch of GetEncoding; the theorem encodings_follow_the_annex is re-checked against them",
            "the reference tables (coq/model/C07_RefEncodings.v) are mine: written from the glyph names of ISO 32000-1 Annex D in code order and the Adobe Glyph List (tools/mk_ref_encodings.py shows the derivation, it reads nothing from /repo); per code a set of acceptable code points, undefined codes accept no character / U+FFFD / the identical control code and the vendor values named in the script. WinAnsi and MacRoman are additionally compared with golang.org/x/text/encoding/charmap in the harness",
            "modelled after the code: standardEncoding.DecodeString, DecodeUTF16BE/LE, parseCMapData (codespace width, bfchar sections, the token scanner and entry reader of bfrange sections, multi-unit destinations, arrays), hexToUnicode, parseHexToUint32, cmap decodeUTF16BE, CMap.Lookup / LookupString / lookupStringWithWidth incl. the width heuristics, Go's rune-to-UTF-8 conversion. norm.NFC is an oracle (Font.DecodeString = NFC of the path chosen by priority is checked by predicates with x/text in the harness, not in the model)",
            "NOT modelled: CustomEncoding / Differences arrays, glyph-name lookup, InferEncodingFromFontName, CID fonts and predefined CMaps (cidfont.go), Type1/TrueType font programs",
        ],
        assumptions=["CMaps with one code width (the implementation reads the width of the first codespace range only)"],
    ),
    "C06": dict(
        gen=[],
        trusted=[
            "modelled after the code: core.Lexer.NextToken with skipWhitespace, readComment, readString (escapes, octal codes, line continuations, nesting), readHexString, readName (#xx), readNumber, readKeyword; core.Parser.nextToken (comments dropped), ParseObject, parseNumber with the two-token lookahead for n g R, parseArray, parseDict; contentstream.Parser.Parse, parseNext, keywordAt, parseOperator, parseOperand, parseNumber, parseString, parseHexString, parseName, parseArray, parseDict, skipWhitespace with comments",
            "strconv.ParseInt(s,10,64) is the C17 atoi model; strconv.ParseFloat is an oracle restricted to sign, digits and one decimal point: reals are kept as exact decimal rationals (mantissa, scale) and the implementation's float64 is mapped back with strconv.FormatFloat, so only literals of at most 15 significant digits are generated; float rounding is outside the theorems",
            "a lexer failure leaves the object parser with a stale lookahead token (its nextToken error is ignored): the model answers 'outside the model' whenever the parser would look at the failing token; such inputs are not generated for this property (C02 owns them)",
            "PROVED at byte level for both parsers: the lexical round trips; the token-level tree round trip of the object parser; for the content stream parser every written operand (integers and reals by any lexeme strconv accepts, literal strings, hex strings with blanks between digits, names, keywords, arrays and dictionaries nested to any depth, whitespace and comments between tokens or none where a delimiter separates them) is read as its value (operand_reads_back), every program of operands and operators is read as the same operations, each operator with exactly the operands written before it (content_stream_reads_back), and the document lexer + parser give the same written operand the same value (both_parsers_read_the_same_value). The written language is the hypothesis of these theorems (cok / prog_ok): a numeric, name or keyword token must be followed by whitespace or a delimiter, operators are words of letters, ', \" and * other than true / false / null. Byte strings outside that language (malformed input, a backslash at the very end of the data, '#' escapes without two hex digits where the two name readers differ on purpose) are tied by the differential run and the parsers-agree predicate only",
            "NOT modelled: indirect objects, streams and inline images (BI/ID/EI), ParseIndirectObject, xref",
        ],
        assumptions=["integers within int64; reals without exponent"],
    ),
    "C04": dict(
        gen=[],
        trusted=[
            "modelled after the code: core.MergeXRefTables over the tables ParseAllXRefs returns (oldest first, every entry Set in order), reader.GetObject with its object cache, getUncompressedObject (object number check), getCompressedObject / getObjectStream (entry kinds, member index and number check), ClearCache, and the resolution of an indirect /Length through the same reader while the stream is parsed; parseXRefStreamEntry / readBigEndianInt as the field codec",
            "the byte syntax of cross-reference tables, cross-reference streams, trailers, /Prev chains, object streams and objects is on the implementation's side: the harness writes real files with its own writer (harness/pdfw.go) and hands the model the sections it wrote and what stands at every offset; a parsing error of the implementation therefore shows as a disagreement, it is not excluded by a theorem. Object syntax is C06, stream filters C05",
            "after the SectionReader fix the file position is no longer part of the reader's state; the model has no shared position",
            "a length object that is itself a stream with an indirect length makes the implementation recurse; the model answers 'outside the model' there and the cache-transparency theorem assumes it away (lengths_ok); such files are not generated here (C02 owns hostile files)",
            "hybrid-reference files (/XRefStm) enter the model as the sections the implementation must merge, in the order ISO 32000-1 7.5.8.4 prescribes (the table, then the stream it names, then /Prev), written by the harness; NOT modelled: /Extends chains of object streams, generation numbers (the reader ignores them), FindXRef / startxref scanning, xref reconstruction",
        ],
        assumptions=["one startxref chain; sections as written by the harness writer"],
    ),
    "C09": dict(
        gen=[],
        trusted=[
            "the model is the data movement of the layout pipeline, not its decisions: every stage (LineDetector, ColumnDetector with spanning content, BlockDetector, ReadingOrderDetector sections and lines, paragraph detection) is a regrouping - sort, partition, concatenate - and which fragment goes where is decided by float heuristics that the theorems quantify over as oracles (key: group of a fragment, pos: place in the group; a key outside the groups = the stage drops the fragment)",
            "tie to /repo by oracle reconstruction: the decisions are read off the implementation's output (group and place of every input fragment, fragments identified by text and position) and given to the extracted model, which rebuilds the groups from the input fragments; the implementation's groups must equal the rebuilt ones and its dropped set must be empty. An output that duplicates, invents or loses a fragment is outside the image of the model for every oracle and shows as a disagreement",
            "the character-level statement (every plain-text rendering has the input's non-whitespace characters as a multiset) is proved for renderings that join fragment texts with whitespace separators (assemble); on the implementation it is checked by predicates for AnalysisResult.GetText, ParagraphLayout.GetText, the line texts, the element texts and the five text modes of the public API on the same pages written as PDF",
            "NOT modelled: the heuristics themselves (tolerances, gap finding, heading / list / alignment detection), Analyzer.buildElementTree (merging three independent detections by bounding-box overlap: see the known finding), header/footer filtering (C11), text-level deduplication of overlapping layers (text.deduplicateFragments, upstream of layout)",
        ],
        assumptions=["fragments are identified by text and position; two input fragments with the same text at the same position are indistinguishable for the tie"],
    ),
    "C03": dict(
        gen=["globals", "maporder"],
        race=True,
        trusted=[
            "the statement 'no state is shared between calls' is decided on the source: tools/gotrans (generator globals) parses every non-test file of every library package of /repo and lists the package-level variables that are assigned, incremented, appended to, have an element or field written or their address taken outside init (GenGlobals.mutable_globals) and those on which methods are called (globals_with_method_calls); the theorems C03_no_package_level_variable_is_written_outside_init and C03_only_the_detector_registry_has_methods_called are closed by reflexivity on the regenerated file, so a new mutable package variable breaks them; the harness then replays the cross-parse scenario of the property (operand-only content stream, then another) as the failing input",
            "given per-call state only, the model is n extractions each stepping its own component of the system state under an arbitrary schedule (interleaving_cannot_be_observed, alone_or_among_others), a process state G that calls do not write (history_cannot_be_observed, repeated_calls_agree), and registries filled in an arbitrary permutation of a map's entries (map_iteration_order_cannot_be_observed: unique keys)",
            "what the scan cannot see - writes through a pointer obtained from an accessor, state inside third-party packages, sync.Pool reuse, map iteration order reaching the output - is covered dynamically: every generated document of every format and its truncated / mid-operand-corrupted copies are extracted repeatedly, in random orders and concurrently on 8-16 goroutines in a binary built with go build -race; any WARNING: DATA RACE in the output is a violation, as is any digest that differs from the first run",
            "tables.globalRegistry (the one global with method calls) is written only by the exported RegisterDetector, under its own mutex; extractions only read it; registering detectors while extracting is outside the property",
            "NOT modelled: the Go memory model and the scheduler (the race detector observes the explored interleavings only), the readers' internal state machines (modelled in C01, C04-C19)",
        ],
        assumptions=["the scan is syntactic: identifiers resolved per package by name, shadowing by a local of the same name is treated as the local"],
    ),
    "C01": dict(
        gen=[],
        trusted=[
            "the model reads the logical page tree: effective MediaBox / Rotate / Resources by inheritance from the nearest ancestor, the content streams of a page joined by white space, parsed by the content-stream parser model of C06 (the very definitions proved there), the text-showing operators Tf / Tj / TJ / ' / \" interpreted with the current font, each string decoded by the font decoders of C07 (named encodings generated from the source, ToUnicode CMaps)",
            "the physical layers are NOT in this model's input: how an object number is resolved through revisions, object streams and the cache is C04's model and theorems, stream filters are C05's, object syntax is C06's; here they are crossed with the logical document by the harness's own PDF writer (numbering, order, packing, filter chains, direct / indirect Length on either side of the stream and beyond the 4 KiB read-ahead, contents splitting between any two tokens, tree depth 1-5 and attribute placement, 1-4 revisions with stale versions and freed objects, table / stream / hybrid cross-reference with several field widths, LF / CRLF / CR, tight syntax, comments) and the implementation must read every such file as the model reads the tree",
            "the layout theorems are stated on the tree (attributes at any ancestor, intermediate nodes, shared attributes moved to the parent, flat form), on the object graph (walking Kids references with bounded depth reads the tree under any object numbering) and on the content (an array of streams reads as one stream; text state carries over); that the bytes of a file denote that graph is tied by correspondence only",
            "predicates checked on the implementation for every file: reader.Open / PageCount / GetPage / MediaBox / Rotate / ExtractTextFragments equal the logical document page by page and string by string; tabula.Open(f).PageCount / Fragments / Text agree with it",
            "NOT modelled: text positions (C08), layout analysis of Text() (C09: only the character multiset is checked here), encryption, page labels, XObject forms, fonts without ToUnicode or named encoding (C07 covers Differences and the other tables)",
        ],
        assumptions=["well-formed documents only: every page has a MediaBox in force and every font named by Tf is in the page's resources; what the implementation does otherwise is C02's subject"],
    ),
    "C02": dict(
        gen=[],
        trusted=[
            "PARTIAL by nature: panics, stack exhaustion, out-of-memory aborts and wall-clock hangs live in the Go runtime, which no Gallina model exhibits. What is logic is modelled and proved: the two walks over attacker-controlled references (the page tree reached through /Kids, entered once per Pages node; the /Prev chain of cross-reference sections with its set of offsets already read) as fuelled functions with an explicit OutOfFuel outcome that the theorems exclude for every graph, cyclic ones included, with fuel one unit per object of the file; the bound on the pages a tree can yield (no multiplication through shared subtrees); and the size checks in front of allocations (cross-reference stream /W and /Index against the data, object stream /N against its header, worksheet grid against the cells present, clamped span counts) as decision functions with the bound each accepted value satisfies",
            "tie to /repo: the same random reference graphs (trees, shared subtrees, cycles, dangling and wrongly typed references), /Prev chains (loops, dangling offsets) and boundary sizes are written as files and given to reader.Open + PageCount, core.XRefParser.ParseAllXRefs / ParseXRefFromEOF, core.ObjectStream and xlsx.Open; result (pages, sections read, accepted / refused) must equal the model's",
            "Reader.ResolveDeep (the object-level API) is modelled too (coq/model/C02_Deep.v: arrays of values and references, the set of objects being expanded, the budget of 2^20 values per call; dictionaries are expanded like arrays) and proved to end on every object graph, to return at most budget values and to return the expansion of the object; tied by ResolveDeep on random graphs with cycles, shared subtrees (ten references per level), missing objects and objects that are bare references",
            "everything else is decided by running: every entry point (Text, ToMarkdown, Chunks and exports, Document, Fragments, Analyze, PageCount, Lines / Paragraphs / IsCharacterLevel, Text with options, the raw-byte parsers core.Parser, contentstream.Parser, font.ParseToUnicodeCMap, FromHTMLString, and for PDF the object-level API: Reader.GetObject of objects 0..24, ResolveDeep of the trailer, of a reference and of a looked-up value, resolver.ObjectResolver.ResolveDeep) on every damaged input in an isolated worker process with a 15 s deadline, a 768 MiB heap watchdog, a 256 MiB stack limit and a per-call allocation meter; a panic, a fatal runtime error, a kill by the watchdog or a missed deadline is a violation with the input file as replay",
            "inputs: valid documents of every format (PDF in the physical layouts of C01) x the fault catalogue of the property (truncation at token boundaries, numeric fields set to 0 / -1 / 2^31 / 2^32-1 / 2^63-1, references retargeted to other objects, their holder or object 0, objects and ZIP members dropped or duplicated, delimiters and tags unbalanced, compressed data corrupted, keys swapped, values of the wrong kind, one or two faults) + random byte noise + directed constructs for each mechanism the property names (/Prev loops, Kids loops and shared-subtree bombs, /Count and /Length lies, self-invoking form XObjects, predictor parameters, ToUnicode ranges, font dictionaries, cross-reference and object stream headers, ODT / DOCX / XLSX repeat, span and level counts, deep nesting in HTML, NCX and OOXML)",
            "thorough tier only: coverage-guided mutation by Go's native fuzzing engine (harness/fuzz_test.go: FuzzPDF, FuzzHTML, FuzzDOCX, FuzzODT, FuzzXLSX, seeded with generated documents and the directed constructs, 40-90 s each; every entry point per mutant under a 15 s deadline and the allocation meter); in the quick tier the byte-noise stream is blind", "NOT covered: decompression bombs (output proportional to what the compressed data really holds), super-linear running times that stay under the deadline on inputs of the sizes generated (a few MB), resource use of concurrent calls",
        ],
        assumptions=["the deadline, heap and stack limits are the harness's; a slower machine can turn a slow input into a reported hang"],
        timeout=3000,
        fuzz=[("FuzzPDF", 90), ("FuzzHTML", 40), ("FuzzDOCX", 40), ("FuzzODT", 40), ("FuzzXLSX", 40)],
    ),
}
