# per-property configuration of ./check
PROPS = {
    "C05": dict(
        gen=["filters"],
        trusted=[
            "compress/zlib is an oracle: section hypothesis inflate (deflate x) = Ok x (premise of the chain theorems); in the correspondence run the real zlib's results are passed to the model as a lookup table",
            "modelled: internal/filters ASCIIHexDecode, ASCII85Decode, applyPredictor, applyTIFFPredictor2, applyPNGPredictor, decodePNGRow, paethPredictor, getIntParam; core Stream.Decode, decodeWithFilter (name table regenerated), paramsObjToDict, dictToParams. Not covered: CCITTFaxDecode, DCT/JPX pass-through contents",
        ],
        assumptions=["Real-valued DecodeParms entries are projected to their truncated integer by the harness (getIntParam does int(float64))"],
    ),
}
