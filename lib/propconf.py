# per-property configuration of ./check
PROPS = {
    "C05": dict(
        gen=["filters"],
        trusted=[
            "compress/zlib is an oracle: section hypothesis inflate (deflate x) = Ok x (premise of the chain theorems); in the correspondence run the real zlib's results are passed to the model as a lookup table",
            "modelled: internal/filters ASCIIHexDecode, ASCII85Decode, applyPredictor, applyTIFFPredictor2, applyPNGPredictor, decodePNGRow, paethPredictor, getIntParam; core Stream.Decode, decodeWithFilter (name table regenerated), paramsObjToDict, dictToParams. Not covered: CCITTFaxDecode, DCT/JPX pass-through contents",
        ],
        assumptions=["Real-valued DecodeParms entries are projected to their truncated integer by the harness (getIntParam does int(float64))"],
    ),
    "C17": dict(
        gen=[],
        trusted=[
            "encoding/xml (unmarshalling of worksheet/sharedStrings parts) and archive/zip are oracles: the model receives the abstract rows/cells the harness wrote; number formatting (formatNumber) is the identity in the code and in the model",
            "modelled: xlsx ParseCellRef, ColumnToIndex, IndexToColumn, CellRef, ParseRangeRef, parseWorksheet (dimension pass, dense grid, placement, type switch, merge marking), parseSharedStrings (plain/rich), TextWithOptions for one sheet, findContentBounds+sheetToTable. Go int overflow of ColumnToIndex beyond 13 letters is not modelled (unbounded Z)",
        ],
        assumptions=["non-ASCII column strings are outside the byte-level model of strings.ToUpper"],
        timeout=3000,
    ),
}
