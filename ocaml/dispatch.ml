(* property id -> extracted run function *)
let lookup (p : string) : Model.val0 -> Model.val0 =
  match p with
  | "C05" -> Model.run_C05
  | "C17" -> Model.run_C17
  | "C08" -> Model.run_C08
  | "C13" -> Model.run_C13
  | "C20" -> Model.run_C20
  | "C11" -> Model.run_C11
  | "C14" -> Model.run_C14
  | "C10" -> Model.run_C10
  | "C15" -> Model.run_C15
  | "C18" -> Model.run_C18
  | "C16" -> Model.run_C16
  | "C12" -> Model.run_C12
  | "C19" -> Model.run_C19
  | "C07" -> Model.run_C07
  | "C06" -> Model.run_C06
  | "C04" -> Model.run_C04
  | "C09" -> Model.run_C09
  | "C03" -> Model.run_C03
  | "C01" -> Model.run_C01
  | "C02" -> Model.run_C02
  | _ -> failwith ("unknown property " ^ p)
