(* Generic driver: reads one val per line, applies Model.run_<prop>, prints one
   val per line.  Trusted glue: the text <-> val conversion below. *)
module M = Model

let rec pos_of_int (n : int) : M.positive =
  if n = 1 then M.XH
  else if n land 1 = 0 then M.XO (pos_of_int (n lsr 1))
  else M.XI (pos_of_int (n lsr 1))

let n_of_int (n : int) : M.n = if n = 0 then M.N0 else M.Npos (pos_of_int n)
let z_of_int (n : int) : M.z =
  if n = 0 then M.Z0 else if n > 0 then M.Zpos (pos_of_int n) else M.Zneg (pos_of_int (-n))

let rec int_of_pos (p : M.positive) : int =
  match p with M.XH -> 1 | M.XO q -> 2 * int_of_pos q | M.XI q -> 2 * int_of_pos q + 1
let int_of_n (n : M.n) : int = match n with M.N0 -> 0 | M.Npos p -> int_of_pos p

(* decimal <-> z through the extracted arithmetic, so any size works *)
let z10 = z_of_int 10
let z_of_string (s : string) : M.z =
  let neg = String.length s > 0 && s.[0] = '-' in
  let start = if neg then 1 else 0 in
  let acc = ref M.Z0 in
  for i = start to String.length s - 1 do
    acc := M.Z.add (M.Z.mul !acc z10) (z_of_int (Char.code s.[i] - 48))
  done;
  if neg then M.Z.sub M.Z0 !acc else !acc

let rec pos_bits (p : M.positive) : int =
  match p with M.XH -> 1 | M.XO q -> 1 + pos_bits q | M.XI q -> 1 + pos_bits q

let string_of_z (v : M.z) : string =
  let small p = pos_bits p < 62 in
  match v with
  | M.Z0 -> "0"
  | M.Zpos p when small p -> string_of_int (int_of_pos p)
  | M.Zneg p when small p -> "-" ^ string_of_int (int_of_pos p)
  | _ ->
    let neg = (match v with M.Zneg _ -> true | _ -> false) in
    let a = ref (match v with M.Zneg p -> M.Zpos p | x -> x) in
    let buf = Buffer.create 32 in
    while !a <> M.Z0 do
      let d = M.Z.modulo !a z10 in
      Buffer.add_char buf (Char.chr (48 + (match d with M.Z0 -> 0 | M.Zpos p -> int_of_pos p | M.Zneg _ -> 0)));
      a := M.Z.div !a z10
    done;
    let s = Buffer.contents buf in
    let n = String.length s in
    let r = String.init n (fun i -> s.[n - 1 - i]) in
    if neg then "-" ^ r else r

let hexval c =
  match c with
  | '0'..'9' -> Char.code c - 48
  | 'a'..'f' -> Char.code c - 87
  | 'A'..'F' -> Char.code c - 55
  | _ -> failwith "bad hex"

(* byte values 0..255 are shared *)
let ntab = Array.init 256 n_of_int

let parse_line (s : string) : M.val0 =
  let n = String.length s in
  let pos = ref 0 in
  let rec skip () = if !pos < n && (s.[!pos] = ' ' || s.[!pos] = '\t' || s.[!pos] = '\r') then (incr pos; skip ()) in
  let rec value () : M.val0 =
    skip ();
    if !pos >= n then failwith "eol";
    let c = s.[!pos] in
    if c = '(' then begin
      incr pos;
      let items = ref [] in
      let rec loop () =
        skip ();
        if !pos >= n then failwith "unclosed";
        if s.[!pos] = ')' then incr pos
        else (items := value () :: !items; loop ()) in
      loop ();
      M.VL (List.rev !items)
    end else if c = 'x' then begin
      incr pos;
      let st = !pos in
      while !pos < n && (match s.[!pos] with '0'..'9' | 'a'..'f' | 'A'..'F' -> true | _ -> false) do incr pos done;
      let len = (!pos - st) / 2 in
      let l = ref [] in
      for i = len - 1 downto 0 do
        l := ntab.(hexval s.[st + 2*i] * 16 + hexval s.[st + 2*i + 1]) :: !l
      done;
      M.VB !l
    end else begin
      let st = !pos in
      if s.[!pos] = '-' then incr pos;
      while !pos < n && s.[!pos] >= '0' && s.[!pos] <= '9' do incr pos done;
      if !pos = st then failwith ("bad token at " ^ string_of_int st);
      M.VI (z_of_string (String.sub s st (!pos - st)))
    end in
  value ()

let rec print_val (b : Buffer.t) (v : M.val0) : unit =
  match v with
  | M.VI z -> Buffer.add_string b (string_of_z z)
  | M.VB l ->
    Buffer.add_char b 'x';
    List.iter (fun x -> Buffer.add_string b (Printf.sprintf "%02x" (int_of_n x land 255))) l
  | M.VL l ->
    Buffer.add_char b '(';
    List.iteri (fun i x -> if i > 0 then Buffer.add_char b ' '; print_val b x) l;
    Buffer.add_char b ')'

let () =
  let prop = Sys.argv.(1) in
  let f = Dispatch.lookup prop in
  let buf = Buffer.create 65536 in
  (try
    while true do
      let line = input_line stdin in
      if String.length line > 0 then begin
        let out = (try f (parse_line line) with
                   | Stack_overflow -> M.VL [M.VI (z_of_int (-2))]
                   | Failure m -> M.VL [M.VI (z_of_int (-3))]) in
        Buffer.clear buf;
        print_val buf out;
        print_string (Buffer.contents buf);
        print_newline ()
      end else print_newline ()
    done
  with End_of_file -> ())
