#!/bin/sh
# Build the framework from files on disk only (offline).
set -e
cd "$(dirname "$0")"
export GOFLAGS=-mod=mod GOPROXY=off GOSUMDB=off GOTOOLCHAIN=local CGO_ENABLED=0
mkdir -p .work/bin evidence coq/gen
(cd tools/gotrans && go build -o ../../.work/bin/gotrans .)
./.work/bin/gotrans -repo "${VERIF_REPO:-/repo}" -out coq/gen
sh coq/mkproject.sh
(cd coq && timeout 3000 make -j16)
cp "${VERIF_REPO:-/repo}/go.sum" harness/go.sum
(cd harness && go build -tags verif -o ../.work/bin/vh .)
mkdir -p .work/ocaml
(cd .work/ocaml && coqc -Q ../../coq Tabula ../../coq/extract/Extract.v && cp ../../ocaml/*.ml . && ocamlfind ocamlopt -O3 -w -a model.mli model.ml dispatch.ml driver.ml -o vm)
echo setup done
