#!/usr/bin/env python3
# usage: addcheck.py Cxx "level text" "level note" ["technique"]
import json,sys
pid,text,note=sys.argv[1:4]
tech=sys.argv[4] if len(sys.argv)>4 else "machine-checked proof in Coq + extracted-model correspondence"
m=json.load(open('/verif/MANIFEST.json'))
m["checks"]=[c for c in m["checks"] if c["property_id"]!=pid]
m["checks"].append({"property_id":pid,"quick_cmd":"./check %s --tier quick"%pid,"thorough_cmd":"./check %s --tier thorough"%pid,"evidence_file":"/verif/evidence/%s.json"%pid,"replay_cmd_template":"./check %s --replay {path}"%pid,"engine":"coq-model","level_claimed":{"category":"proof","text":text,"design_ref":"DESIGN.md section 5 "+pid},"level_note":note,"technique":tech})
m["checks"].sort(key=lambda c:c["property_id"])
for e in m["engines"]:
    e["serves_properties"]=sorted(set(e["serves_properties"]+[pid]))
json.dump(m,open('/verif/MANIFEST.json','w'),indent=1)
