import sys, json, glob, os
pid = sys.argv[1]
first = int(sys.argv[2]) if len(sys.argv) > 2 else 3
prop = open('/tmp/prop-%s.txt' % pid).read()
prev = []
for m in sorted(glob.glob('/verif/seeded/%s-*/meta.json' % pid)):
    prev.append('- ' + json.load(open(m)).get('summary', '').strip())
a, b = first, first + 1
print(f"""You are helping test a verification setup for the Go library tsawler/tabula (pure-Go document text extraction: PDF, DOCX, ODT, XLSX, PPTX, EPUB, HTML; layout analysis; RAG chunking).

You have your own scratch git worktree of the repository at /tmp/wt-{pid} (work ONLY there; never touch /repo or /verif, and do not read anything under /verif). Go environment for every shell call: `export GOFLAGS=-mod=mod GOPROXY=off GOSUMDB=off GOTOOLCHAIN=local` (there is no network). Never use `git stash` (other agents share this repository's git directory and the stash is common to all worktrees) and never run conda.

Here is a semantic property the library is supposed to satisfy:

---
{prop}---

Task: produce 2 DIFFERENT, independent realistic code changes (mutations) to the library, numbered {a} and {b}, each of which BREAKS this property while the code still compiles and the ENTIRE existing test suite still passes (`cd /tmp/wt-{pid} && go build ./... && go test -count=1 ./... 2>&1 | tail -40` must show no FAIL). Each change should look like a plausible regression or refactoring slip a maintainer could make (an off-by-one, a swapped operand, a dropped branch, a wrong default, state that leaks, a boundary mishandled), NOT something that ordinary use would expose at once. Prefer changes that need something specific to manifest: an unusual input, a particular combination of options, a multi-step sequence of operations, a boundary value, or two cooperating sites that each look fine alone. Do not modify any *_test.go files. Keep each change small (a few lines).

Earlier rounds already produced the following changes. Do NOT repeat them or close variants of them; pick other functions, other mechanisms and other parts of the property's statement (read the property text again: every clause of it is fair game, and so is every file format / entry point it covers):
{chr(10).join(prev)}

For each mutation i in ({a}, {b}):
 1. Start from a clean tree (`git -C /tmp/wt-{pid} checkout -- . && git -C /tmp/wt-{pid} clean -fdq`).
 2. Make the change; confirm build + the full existing test suite pass.
 3. Save the diff: `git -C /tmp/wt-{pid} diff > /tmp/mut-{pid}-i.diff`.
 4. Write a demonstration as a standalone Go test file /tmp/mut-{pid}-i_demo_test.go (package name and target directory stated in a first-line comment, e.g. `// place in: internal/filters (package filters)`), which FAILS with the change applied and PASSES on the unmodified tree. Verify both directions yourself by copying it into the worktree, running just that test, then removing it.
 5. Write /tmp/mut-{pid}-i.json with keys: property ("{pid}"), summary (one sentence: what was changed), needs (what specific input/sequence/configuration is needed for the breakage to manifest), demo_dir (directory where the demo test file goes), demo_run (the exact go test command to run it), files (list of files changed).
Finally restore the worktree to clean. Reply with a short list of what you produced (file paths + one line each). Do not produce anything else.""")
