#!/bin/bash
# usage: confirm_mut.sh <Cxx> <i> : confirm a sub-agent mutation in a scratch worktree and store it under /verif/seeded/
pid=$1; i=$2
export GOFLAGS=-mod=mod GOPROXY=off GOSUMDB=off GOTOOLCHAIN=local
wt=/tmp/cw-$pid-$i
diff=/tmp/mut-$pid-$i.diff; demo=/tmp/mut-$pid-${i}_demo_test.go; meta=/tmp/mut-$pid-$i.json
[ -f "$diff" ] && [ -f "$demo" ] && [ -f "$meta" ] || { echo "missing files for $pid-$i"; exit 2; }
git -C /repo worktree add -q --detach $wt HEAD || exit 2
res="confirmed"
cd $wt
ddir=$(python3 -c "import json;print(json.load(open('$meta'))['demo_dir'])")
ddir=${ddir#/tmp/wt-$pid/}; ddir=${ddir#/tmp/wt-$pid}; [ -z "$ddir" ] && ddir=.
[ "$ddir" = "repository root" ] && ddir=.
tname=$(grep -o 'func Test[A-Za-z0-9_]*' $demo | head -1 | sed 's/func //')
cp $demo $ddir/zz_mut_demo_test.go
go test -count=1 -run "^Test" ./$ddir > /tmp/cw-$pid-$i.clean.log 2>&1; rc_clean_all=$?
go test -count=1 -run "$(grep -o 'func Test[A-Za-z0-9_]*' $demo | sed 's/func //' | paste -sd'|')" ./$ddir > /tmp/cw-$pid-$i.demo_clean.log 2>&1; rc_demo_clean=$?
rm $ddir/zz_mut_demo_test.go
git apply $diff || res="patch-does-not-apply"
go build ./... > /tmp/cw-$pid-$i.build.log 2>&1 || res="does-not-build"
go test -count=1 ./... > /tmp/cw-$pid-$i.suite.log 2>&1; rc_suite=$?
cp $demo $ddir/zz_mut_demo_test.go
go test -count=1 -run "$(grep -o 'func Test[A-Za-z0-9_]*' $demo | sed 's/func //' | paste -sd'|')" ./$ddir > /tmp/cw-$pid-$i.demo_mut.log 2>&1; rc_demo_mut=$?
rm -f $ddir/zz_mut_demo_test.go
[ $rc_demo_clean -ne 0 ] && res="demo-fails-on-clean-tree"
[ $rc_suite -ne 0 ] && res="suite-fails-with-change"
[ $rc_demo_mut -eq 0 ] && res="demo-passes-with-change"
cd /; git -C /repo worktree remove --force $wt
echo "$pid-$i: $res (demo clean rc=$rc_demo_clean, suite rc=$rc_suite, demo mutated rc=$rc_demo_mut)"
if [ "$res" = "confirmed" ]; then
  d=/verif/seeded/$pid-$i; mkdir -p $d
  cp $diff $d/patch.diff; cp $demo $d/demo_test.go
  python3 - <<PY
import json
m=json.load(open('$meta'))
m['confirmed']={'demo_on_clean_tree':'pass','full_suite_with_change':'pass','demo_with_change':'fail','how':'tools/confirm_mut.sh in a scratch worktree of /repo HEAD'}
json.dump(m,open('$d/meta.json','w'),indent=1)
PY
fi
