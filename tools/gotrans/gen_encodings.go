package main

import (
	"fmt"
	"go/ast"
	"strings"
)

// GenEncodings.v: the six [256]rune tables of font/encoding.go, the name each
// *standardEncoding variable carries and its table, and GetEncoding's dispatch.
func init() {
	generators["encodings"] = func() {
		var b strings.Builder
		b.WriteString("Open Scope Z_scope.\n")
		// every var X = [256]rune{...}
		tables := map[string][]int64{}
		p := loadPkg("font")
		for _, f := range p.files {
			for _, d := range f.Decls {
				gd, ok := d.(*ast.GenDecl)
				if !ok {
					continue
				}
				for _, s := range gd.Specs {
					vs, ok := s.(*ast.ValueSpec)
					if !ok || len(vs.Names) != 1 || len(vs.Values) != 1 {
						continue
					}
					cl, ok := vs.Values[0].(*ast.CompositeLit)
					if !ok {
						continue
					}
					at, ok := cl.Type.(*ast.ArrayType)
					if !ok {
						continue
					}
					if n, ok := litInt(at.Len); !ok || n != 256 {
						continue
					}
					if id, ok := at.Elt.(*ast.Ident); !ok || id.Name != "rune" {
						continue
					}
					var vals []int64
					for _, e := range cl.Elts {
						if _, isKV := e.(*ast.KeyValueExpr); isKV {
							fail("encodings: keyed element in table %s", vs.Names[0].Name)
						}
						v, ok := litInt(e)
						if !ok {
							fail("encodings: non-literal element in table %s", vs.Names[0].Name)
						}
						vals = append(vals, v)
					}
					if len(vals) > 256 {
						fail("encodings: table %s has %d elements", vs.Names[0].Name, len(vals))
					}
					for len(vals) < 256 {
						vals = append(vals, 0)
					}
					tables[vs.Names[0].Name] = vals
				}
			}
		}
		// the *standardEncoding variables: name and table
		type encVar struct{ goVar, name, table string }
		var encs []encVar
		for _, f := range p.files {
			for _, d := range f.Decls {
				gd, ok := d.(*ast.GenDecl)
				if !ok {
					continue
				}
				for _, s := range gd.Specs {
					vs, ok := s.(*ast.ValueSpec)
					if !ok || len(vs.Names) != 1 || len(vs.Values) != 1 {
						continue
					}
					ue, ok := vs.Values[0].(*ast.UnaryExpr)
					if !ok {
						continue
					}
					cl, ok := ue.X.(*ast.CompositeLit)
					if !ok {
						continue
					}
					if id, ok := cl.Type.(*ast.Ident); !ok || id.Name != "standardEncoding" {
						continue
					}
					ev := encVar{goVar: vs.Names[0].Name}
					for _, e := range cl.Elts {
						kv := e.(*ast.KeyValueExpr)
						switch kv.Key.(*ast.Ident).Name {
						case "name":
							ev.name, _ = litString(kv.Value)
						case "table":
							ev.table = kv.Value.(*ast.Ident).Name
						}
					}
					if _, ok := tables[ev.table]; !ok {
						fail("encodings: %s uses unknown table %s", ev.goVar, ev.table)
					}
					encs = append(encs, ev)
				}
			}
		}
		if len(encs) == 0 {
			fail("encodings: no standardEncoding variables found")
		}
		for _, ev := range encs {
			fmt.Fprintf(&b, "Definition enc_%s : list Z := [", ev.goVar)
			for i, v := range tables[ev.table] {
				if i > 0 {
					b.WriteString("; ")
				}
				if i%16 == 0 {
					b.WriteString("\n  ")
				}
				fmt.Fprintf(&b, "%d", v)
			}
			b.WriteString("].\n")
		}
		// GetEncoding: case "Name": return Var
		fd := findFunc("font", "GetEncoding")
		var sw *ast.SwitchStmt
		ast.Inspect(fd.Body, func(n ast.Node) bool {
			if s, ok := n.(*ast.SwitchStmt); ok && sw == nil {
				sw = s
			}
			return true
		})
		if sw == nil {
			fail("encodings: GetEncoding has no switch")
		}
		b.WriteString("Definition get_encoding_table : list (list N * list Z) := [\n")
		def := ""
		first := true
		for _, st := range sw.Body.List {
			cc := st.(*ast.CaseClause)
			if len(cc.Body) != 1 {
				fail("encodings: unexpected case body in GetEncoding")
			}
			ret, ok := cc.Body[0].(*ast.ReturnStmt)
			if !ok || len(ret.Results) != 1 {
				fail("encodings: case of GetEncoding does not return one value")
			}
			id, ok := ret.Results[0].(*ast.Ident)
			if !ok {
				fail("encodings: GetEncoding returns a non-identifier")
			}
			if cc.List == nil {
				def = id.Name
				continue
			}
			for _, e := range cc.List {
				s, ok := litString(e)
				if !ok {
					fail("encodings: non-literal case in GetEncoding")
				}
				if !first {
					b.WriteString(";\n")
				}
				first = false
				fmt.Fprintf(&b, "  (%s, enc_%s) (* %s *)", coqBytes(s), id.Name, s)
			}
		}
		b.WriteString("\n].\n")
		if def == "" {
			fail("encodings: GetEncoding has no default")
		}
		fmt.Fprintf(&b, "Definition get_encoding_default : list Z := enc_%s.\n", def)
		// the names the variables carry
		b.WriteString("Definition encoding_names : list (list N * list Z) := [\n")
		for i, ev := range encs {
			if i > 0 {
				b.WriteString(";\n")
			}
			fmt.Fprintf(&b, "  (%s, enc_%s)", coqBytes(ev.name), ev.goVar)
		}
		b.WriteString("\n].\n")
		emit("GenEncodings.v", b.String())
	}
}
