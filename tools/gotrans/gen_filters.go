package main

import (
	"fmt"
	"strings"
)

// GenFilters.v: character classes of internal/filters and the filter-name
// dispatch of core.decodeWithFilter.
func init() {
	generators["filters"] = func() {
		var b strings.Builder
		b.WriteString("Open Scope N_scope.\n")
		b.WriteString(transPredicate("internal/filters", "isWhitespace", "flt_is_ws", nil))
		b.WriteString(transDigitFunc("internal/filters", "hexDigitToByte", "flt_hex_digit"))
		// dispatch
		fd := findFunc("core", "decodeWithFilter")
		entries, def := stringSwitch(fd, "filterName")
		b.WriteString("Close Scope N_scope.\n")
		b.WriteString("(* clause class = name of the function called (or shape of the value returned) by the clause *)\n")
		b.WriteString("Definition flt_dispatch : list (list N * string) := [\n")
		first := true
		for _, e := range entries {
			for _, n := range e.names {
				if !first {
					b.WriteString(";\n")
				}
				first = false
				fmt.Fprintf(&b, "  (%s, \"%s\"%%string) (* %s *)", coqBytes(n), e.class, n)
			}
		}
		b.WriteString("\n].\n")
		fmt.Fprintf(&b, "Definition flt_dispatch_default : string := \"%s\"%%string.\n", def)
		emit("GenFilters.v", b.String())
	}
}
