package main

import (
	"fmt"
	"go/ast"
	"go/token"
	"strings"
)

// GenFormat.v: the extension table of format.Detect, the Format constant order,
// and the suffix list of epubdoc.isContentFile.
func init() {
	generators["format"] = func() {
		var b strings.Builder
		// constant order
		p := loadPkg("format")
		var consts []string
		for _, f := range p.files {
			for _, d := range f.Decls {
				gd, ok := d.(*ast.GenDecl)
				if !ok || gd.Tok != token.CONST {
					continue
				}
				isFormat := false
				for _, s := range gd.Specs {
					vs := s.(*ast.ValueSpec)
					if id, ok := vs.Type.(*ast.Ident); ok && id.Name == "Format" {
						isFormat = true
					}
					if isFormat {
						for _, n := range vs.Names {
							consts = append(consts, n.Name)
						}
					}
				}
			}
		}
		if len(consts) == 0 {
			fail("format: Format constants not found")
		}
		b.WriteString("Definition fmt_constants : list string := [")
		for i, c := range consts {
			if i > 0 {
				b.WriteString("; ")
			}
			fmt.Fprintf(&b, "\"%s\"%%string", c)
		}
		b.WriteString("].\n")
		entries, def := stringSwitch(findFunc("format", "Detect"), "ext")
		b.WriteString("Definition fmt_ext_table : list (list N * string) := [\n")
		first := true
		for _, e := range entries {
			for _, n := range e.names {
				if !first {
					b.WriteString(";\n")
				}
				first = false
				fmt.Fprintf(&b, "  (%s, \"%s\"%%string) (* %s *)", coqBytes(n), strings.TrimPrefix(e.class, "ident_"), n)
			}
		}
		b.WriteString("\n].\n")
		fmt.Fprintf(&b, "Definition fmt_ext_default : string := \"%s\"%%string.\n", strings.TrimPrefix(def, "ident_"))
		// isContentFile suffixes: every strings.HasSuffix(uri, "lit") in the function
		fd := findFunc("epubdoc", "isContentFile")
		var sufs []string
		ast.Inspect(fd.Body, func(n ast.Node) bool {
			if call, ok := n.(*ast.CallExpr); ok {
				if sel, ok := call.Fun.(*ast.SelectorExpr); ok && sel.Sel.Name == "HasSuffix" && len(call.Args) == 2 {
					if s, ok := litString(call.Args[1]); ok {
						sufs = append(sufs, s)
					}
				}
			}
			return true
		})
		b.WriteString("Definition drm_content_suffixes : list (list N) := [")
		for i, s := range sufs {
			if i > 0 {
				b.WriteString("; ")
			}
			b.WriteString(coqBytes(s))
		}
		b.WriteString("].\n")
		emit("GenFormat.v", b.String())
	}
}
