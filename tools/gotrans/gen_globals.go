package main

import (
	"fmt"
	"go/ast"
	"go/token"
	"os"
	"path/filepath"
	"sort"
	"strings"
)

// GenGlobals.v: the package-level variables of every library package that are
// written outside init (assigned, incremented, appended to, an element or a
// field written, or their address taken), and the package-level variables on
// which methods are called outside init (a method may write through its
// receiver; those are listed for review, not decided here).
//
// Identifier resolution is lexical: a scope walker tracks parameters, :=, var,
// range and type-switch bindings and function literals, so that a local
// variable with the name of a package-level one is not mistaken for it.

type scopeStack []map[string]bool

func (s *scopeStack) push()           { *s = append(*s, map[string]bool{}) }
func (s *scopeStack) pop()            { *s = (*s)[:len(*s)-1] }
func (s scopeStack) declare(n string) { s[len(s)-1][n] = true }
func (s scopeStack) local(n string) bool {
	for i := len(s) - 1; i >= 0; i-- {
		if s[i][n] {
			return true
		}
	}
	return false
}

func rootIdent(e ast.Expr) *ast.Ident {
	for {
		switch x := e.(type) {
		case *ast.Ident:
			return x
		case *ast.IndexExpr:
			e = x.X
		case *ast.SelectorExpr:
			e = x.X
		case *ast.StarExpr:
			e = x.X
		case *ast.ParenExpr:
			e = x.X
		case *ast.SliceExpr:
			e = x.X
		default:
			return nil
		}
	}
}

type globalsScan struct {
	globals  map[string]bool
	written  map[string]string // name -> where
	receiver map[string]string
	fset     *token.FileSet
	scopes   scopeStack
}

func (g *globalsScan) isGlobal(id *ast.Ident) bool {
	return id != nil && g.globals[id.Name] && !g.scopes.local(id.Name)
}

func (g *globalsScan) where(p token.Pos) string {
	pos := g.fset.Position(p)
	return fmt.Sprintf("%s:%d", filepath.Base(pos.Filename), pos.Line)
}

func (g *globalsScan) expr(e ast.Expr) {
	if e == nil {
		return
	}
	ast.Inspect(e, func(n ast.Node) bool {
		switch x := n.(type) {
		case *ast.FuncLit:
			g.fn(x.Type, x.Body)
			return false
		case *ast.UnaryExpr:
			if x.Op == token.AND {
				if id := rootIdent(x.X); g.isGlobal(id) {
					if _, isLit := x.X.(*ast.CompositeLit); !isLit {
						g.written[id.Name] = "address taken at " + g.where(x.Pos())
					}
				}
			}
		case *ast.CallExpr:
			if sel, ok := x.Fun.(*ast.SelectorExpr); ok {
				if id, ok := sel.X.(*ast.Ident); ok && g.isGlobal(id) {
					g.receiver[id.Name] = sel.Sel.Name + " at " + g.where(x.Pos())
				}
			}
		}
		return true
	})
}

func (g *globalsScan) write(lhs ast.Expr, pos token.Pos) {
	if id := rootIdent(lhs); g.isGlobal(id) {
		g.written[id.Name] = "written at " + g.where(pos)
	}
}

func (g *globalsScan) stmts(list []ast.Stmt) {
	for _, s := range list {
		g.stmt(s)
	}
}

func (g *globalsScan) stmt(s ast.Stmt) {
	switch x := s.(type) {
	case nil:
	case *ast.BlockStmt:
		g.scopes.push()
		g.stmts(x.List)
		g.scopes.pop()
	case *ast.AssignStmt:
		for _, r := range x.Rhs {
			g.expr(r)
		}
		if x.Tok == token.DEFINE {
			for _, l := range x.Lhs {
				if id, ok := l.(*ast.Ident); ok {
					g.scopes.declare(id.Name)
				}
			}
		} else {
			for _, l := range x.Lhs {
				g.expr(l)
				g.write(l, x.Pos())
			}
		}
	case *ast.IncDecStmt:
		g.write(x.X, x.Pos())
	case *ast.DeclStmt:
		if gd, ok := x.Decl.(*ast.GenDecl); ok {
			for _, sp := range gd.Specs {
				if vs, ok := sp.(*ast.ValueSpec); ok {
					for _, v := range vs.Values {
						g.expr(v)
					}
					for _, n := range vs.Names {
						g.scopes.declare(n.Name)
					}
				}
			}
		}
	case *ast.ExprStmt:
		g.expr(x.X)
	case *ast.SendStmt:
		g.expr(x.Chan)
		g.expr(x.Value)
	case *ast.GoStmt:
		g.expr(x.Call)
	case *ast.DeferStmt:
		g.expr(x.Call)
	case *ast.ReturnStmt:
		for _, r := range x.Results {
			g.expr(r)
		}
	case *ast.IfStmt:
		g.scopes.push()
		g.stmt(x.Init)
		g.expr(x.Cond)
		g.stmt(x.Body)
		g.stmt(x.Else)
		g.scopes.pop()
	case *ast.ForStmt:
		g.scopes.push()
		g.stmt(x.Init)
		g.expr(x.Cond)
		g.stmt(x.Post)
		g.stmt(x.Body)
		g.scopes.pop()
	case *ast.RangeStmt:
		g.scopes.push()
		g.expr(x.X)
		if x.Tok == token.DEFINE {
			for _, e := range []ast.Expr{x.Key, x.Value} {
				if id, ok := e.(*ast.Ident); ok {
					g.scopes.declare(id.Name)
				}
			}
		} else {
			for _, e := range []ast.Expr{x.Key, x.Value} {
				if e != nil {
					g.write(e, x.Pos())
				}
			}
		}
		g.stmt(x.Body)
		g.scopes.pop()
	case *ast.SwitchStmt:
		g.scopes.push()
		g.stmt(x.Init)
		g.expr(x.Tag)
		g.stmt(x.Body)
		g.scopes.pop()
	case *ast.TypeSwitchStmt:
		g.scopes.push()
		g.stmt(x.Init)
		g.stmt(x.Assign)
		g.stmt(x.Body)
		g.scopes.pop()
	case *ast.CaseClause:
		g.scopes.push()
		for _, e := range x.List {
			g.expr(e)
		}
		g.stmts(x.Body)
		g.scopes.pop()
	case *ast.SelectStmt:
		g.stmt(x.Body)
	case *ast.CommClause:
		g.scopes.push()
		g.stmt(x.Comm)
		g.stmts(x.Body)
		g.scopes.pop()
	case *ast.LabeledStmt:
		g.stmt(x.Stmt)
	}
}

func (g *globalsScan) fn(ft *ast.FuncType, body *ast.BlockStmt) {
	if body == nil {
		return
	}
	g.scopes.push()
	for _, fl := range []*ast.FieldList{ft.Params, ft.Results} {
		if fl == nil {
			continue
		}
		for _, f := range fl.List {
			for _, n := range f.Names {
				g.scopes.declare(n.Name)
			}
		}
	}
	g.stmts(body.List)
	g.scopes.pop()
}

func init() {
	generators["globals"] = func() {
		var dirs []string
		filepath.Walk(repo, func(path string, info os.FileInfo, err error) error {
			if err != nil || !info.IsDir() {
				return nil
			}
			name := info.Name()
			if strings.HasPrefix(name, ".") || name == "testdata" || name == "examples" || name == "cmd" || name == "vendor" {
				if path != repo {
					return filepath.SkipDir
				}
			}
			rel, _ := filepath.Rel(repo, path)
			dirs = append(dirs, rel)
			return nil
		})
		sort.Strings(dirs)
		var mutable, receivers, all []string
		for _, dir := range dirs {
			p := loadPkg(dir)
			if len(p.files) == 0 {
				continue
			}
			pkg := p.files[0].Name.Name
			if pkg == "main" {
				continue
			}
			g := &globalsScan{globals: map[string]bool{}, written: map[string]string{}, receiver: map[string]string{}, fset: p.fset}
			for _, f := range p.files {
				for _, d := range f.Decls {
					if gd, ok := d.(*ast.GenDecl); ok && gd.Tok == token.VAR {
						for _, sp := range gd.Specs {
							for _, n := range sp.(*ast.ValueSpec).Names {
								if n.Name != "_" {
									g.globals[n.Name] = true
								}
							}
						}
					}
				}
			}
			for _, f := range p.files {
				for _, d := range f.Decls {
					fd, ok := d.(*ast.FuncDecl)
					if !ok || (fd.Recv == nil && fd.Name.Name == "init") {
						continue
					}
					g.scopes = nil
					g.scopes.push()
					if fd.Recv != nil {
						for _, f := range fd.Recv.List {
							for _, n := range f.Names {
								g.scopes.declare(n.Name)
							}
						}
					}
					g.fn(fd.Type, fd.Body)
				}
			}
			for n := range g.globals {
				all = append(all, pkg+"."+n)
			}
			for n, w := range g.written {
				mutable = append(mutable, pkg+"."+n+" ("+w+")")
			}
			for n, w := range g.receiver {
				receivers = append(receivers, pkg+"."+n+" ("+w+")")
			}
		}
		sort.Strings(all)
		sort.Strings(mutable)
		sort.Strings(receivers)
		var b strings.Builder
		emitList := func(name string, l []string) {
			fmt.Fprintf(&b, "Definition %s : list string := [", name)
			for i, s := range l {
				if i > 0 {
					b.WriteString(";")
				}
				fmt.Fprintf(&b, "\n  \"%s\"%%string", s)
			}
			b.WriteString("].\n")
		}
		fmt.Fprintf(&b, "Definition package_level_variables : nat := %d.\n", len(all))
		emitList("mutable_globals", mutable)
		// receivers: keep the name only (the call site moves with every edit)
		var rnames []string
		for _, r := range receivers {
			rnames = append(rnames, strings.SplitN(r, " ", 2)[0])
		}
		emitList("globals_with_method_calls", rnames)
		emit("GenGlobals.v", b.String())
	}
}
