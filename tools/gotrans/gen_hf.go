package main

import (
	"fmt"
	"go/ast"
	"go/token"
	"math/big"
	"strings"
)

// struct literal returned by a constructor: field -> literal source text
func structDefaults(dir, fn string) map[string]string {
	fd := findFunc(dir, fn)
	out := map[string]string{}
	ast.Inspect(fd.Body, func(n ast.Node) bool {
		cl, ok := n.(*ast.CompositeLit)
		if !ok {
			return true
		}
		for _, e := range cl.Elts {
			kv, ok := e.(*ast.KeyValueExpr)
			if !ok {
				continue
			}
			k, ok := kv.Key.(*ast.Ident)
			if !ok {
				continue
			}
			switch v := kv.Value.(type) {
			case *ast.BasicLit:
				out[k.Name] = v.Value
			case *ast.Ident:
				out[k.Name] = v.Name
			case *ast.UnaryExpr:
				if bl, ok := v.X.(*ast.BasicLit); ok && v.Op == token.SUB {
					out[k.Name] = "-" + bl.Value
				}
			}
		}
		return true
	})
	return out
}

// decimal literal -> (numerator, denominator) in lowest terms
func ratOf(lit string) (string, string) {
	r, ok := new(big.Rat).SetString(lit)
	if !ok {
		fail("not a number: %s", lit)
	}
	return r.Num().String(), r.Denom().String()
}

func stringSliceIn(dir, fn, varName string) []string {
	fd := findFunc(dir, fn)
	var out []string
	found := false
	ast.Inspect(fd.Body, func(n ast.Node) bool {
		as, ok := n.(*ast.AssignStmt)
		if !ok || len(as.Lhs) != 1 || len(as.Rhs) != 1 {
			return true
		}
		id, ok := as.Lhs[0].(*ast.Ident)
		if !ok || id.Name != varName {
			return true
		}
		cl, ok := as.Rhs[0].(*ast.CompositeLit)
		if !ok {
			return true
		}
		for _, e := range cl.Elts {
			s, ok := litString(e)
			if !ok {
				fail("%s.%s: non-literal element in %s", dir, fn, varName)
			}
			out = append(out, s)
		}
		found = true
		return false
	})
	if !found {
		fail("%s.%s: slice %s not found", dir, fn, varName)
	}
	return out
}

// GenHeaderFooter.v: page-number patterns and default thresholds
func init() {
	generators["hf"] = func() {
		var b strings.Builder
		pats := stringSliceIn("layout", "isPageNumberPattern", "patterns")
		b.WriteString("Definition hf_patterns : list (list N) := [\n")
		for i, p := range pats {
			if i > 0 {
				b.WriteString(";\n")
			}
			fmt.Fprintf(&b, "  %s (* %q *)", coqBytes(p), p)
		}
		b.WriteString("\n].\n")
		d := structDefaults("layout", "DefaultHeaderFooterConfig")
		for _, f := range []string{"HeaderRegionHeight", "FooterRegionHeight", "MinOccurrenceRatio", "PositionTolerance", "XPositionTolerance", "MinPages"} {
			v, ok := d[f]
			if !ok {
				fail("DefaultHeaderFooterConfig: field %s not found", f)
			}
			n, den := ratOf(v)
			fmt.Fprintf(&b, "Definition hf_%s : Z * Z := (%s, %s)%%Z.\n", f, n, den)
		}
		emit("GenHeaderFooter.v", b.String())
	}
}
