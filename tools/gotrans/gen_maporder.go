package main

import (
	"fmt"
	"go/ast"
	"go/build/constraint"
	"go/importer"
	"go/token"
	"go/types"
	"os"
	"path/filepath"
	"sort"
	"strings"
)

// GenMapOrder.v: the places where the iteration order of a Go map (randomised
// per loop) can reach a result: loops that range over a map-typed expression
// (decided by go/types on the source) and, in their body,
//   - append to a slice that the same function does not sort afterwards,
//   - build a string (+=, WriteString, Fprintf and the like),
//   - keep the entry that compares best so far (if v > best { best = v; arg = k })
//     without saying which of two equal entries wins, or
//   - leave early (return, or break out of the loop), so that the first entry
//     met decides.
// Loops whose body only reduces with a commutative operation, writes another
// map, or whose slice is sorted later in the function are not listed.
//
// Also: package-level variables holding a map, slice or pointer whose value is
// handed on as a whole (assigned, stored in a composite literal, returned):
// whoever receives it can write the shared value (aliased_globals).

type typedPkg struct {
	fset  *token.FileSet
	files []*ast.File
	info  *types.Info
	pkg   string
}

func loadTyped(dir string) *typedPkg {
	p := loadPkg(dir)
	if len(p.files) == 0 {
		return nil
	}
	// the default build: no optional tags
	var files []*ast.File
	for _, f := range p.files {
		keep := true
		for _, cg := range f.Comments {
			if cg.Pos() >= f.Package {
				break
			}
			for _, c := range cg.List {
				if constraint.IsGoBuild(c.Text) {
					if ex, err := constraint.Parse(c.Text); err == nil {
						keep = ex.Eval(func(tag string) bool {
							return tag == "linux" || tag == "amd64" || tag == "unix" || strings.HasPrefix(tag, "go1")
						})
					}
				}
			}
		}
		if keep {
			files = append(files, f)
		}
	}
	p = &pkgFiles{fset: p.fset, files: files}
	info := &types.Info{Types: map[ast.Expr]types.TypeAndValue{}, Uses: map[*ast.Ident]types.Object{}, Defs: map[*ast.Ident]types.Object{}}
	nerr := 0
	conf := types.Config{Importer: importer.ForCompiler(p.fset, "source", nil), Error: func(error) { nerr++ }}
	conf.Check(dir, p.fset, p.files, info)
	if nerr > 0 {
		fail("type check of %s: %d errors", dir, nerr)
	}
	return &typedPkg{p.fset, p.files, info, p.files[0].Name.Name}
}

func exprText(e ast.Expr) string {
	switch x := e.(type) {
	case *ast.Ident:
		return x.Name
	case *ast.SelectorExpr:
		return exprText(x.X) + "." + x.Sel.Name
	case *ast.IndexExpr:
		return exprText(x.X) + "[]"
	case *ast.StarExpr:
		return exprText(x.X)
	case *ast.ParenExpr:
		return exprText(x.X)
	}
	return "?"
}

func mentions(n ast.Node, text string) bool {
	found := false
	ast.Inspect(n, func(m ast.Node) bool {
		if e, ok := m.(ast.Expr); ok && exprText(e) == text {
			found = true
		}
		return !found
	})
	return found
}

func isSortCall(c *ast.CallExpr) bool {
	if sel, ok := c.Fun.(*ast.SelectorExpr); ok {
		if id, ok := sel.X.(*ast.Ident); ok && (id.Name == "sort" || id.Name == "slices") {
			return true
		}
	}
	return false
}

func init() {
	generators["maporder"] = func() {
		os.Chdir(repo)
		var dirs []string
		filepath.Walk(repo, func(path string, info os.FileInfo, err error) error {
			if err != nil || !info.IsDir() {
				return nil
			}
			name := info.Name()
			if strings.HasPrefix(name, ".") || name == "testdata" || name == "examples" || name == "cmd" || name == "vendor" {
				if path != repo {
					return filepath.SkipDir
				}
			}
			rel, _ := filepath.Rel(repo, path)
			dirs = append(dirs, rel)
			return nil
		})
		sort.Strings(dirs)
		var sinks, aliased []string
		nloops := 0
		for _, dir := range dirs {
			tp := loadTyped(dir)
			if tp == nil || tp.pkg == "main" {
				continue
			}
			isMap := func(e ast.Expr) bool {
				if tv, ok := tp.info.Types[e]; ok && tv.Type != nil {
					_, m := tv.Type.Underlying().(*types.Map)
					return m
				}
				return false
			}
			isString := func(e ast.Expr) bool {
				if tv, ok := tp.info.Types[e]; ok && tv.Type != nil {
					b, ok := tv.Type.Underlying().(*types.Basic)
					return ok && b.Info()&types.IsString != 0
				}
				return false
			}
			for _, f := range tp.files {
				for _, d := range f.Decls {
					fd, ok := d.(*ast.FuncDecl)
					if !ok || fd.Body == nil {
						continue
					}
					fname := fd.Name.Name
					if fd.Recv != nil && len(fd.Recv.List) > 0 {
						fname = exprText(fd.Recv.List[0].Type) + "." + fname
					}
					ast.Inspect(fd.Body, func(n ast.Node) bool {
						rs, ok := n.(*ast.RangeStmt)
						if !ok || !isMap(rs.X) {
							return true
						}
						nloops++
						here := map[string]bool{}
						firstPos := map[string]token.Pos{}
						var cur token.Pos
						add := func(kind, what string) {
							k := kind + " " + what
							if !here[k] {
								firstPos[k] = cur
							}
							here[k] = true
						}
						depth := 0
						var walk func(n ast.Node, inner bool)
						walk = func(n ast.Node, inner bool) {
							ast.Inspect(n, func(m ast.Node) bool {
								switch x := m.(type) {
								case *ast.FuncLit:
									return false
								case *ast.ForStmt:
									if m != n {
										walk2 := x.Body
										depth++
										walk(walk2, true)
										depth--
										return false
									}
								case *ast.RangeStmt:
									if m != n {
										depth++
										walk(x.Body, true)
										depth--
										return false
									}
								case *ast.SwitchStmt, *ast.TypeSwitchStmt, *ast.SelectStmt:
									if m != n {
										depth++
										ast.Inspect(m, func(k ast.Node) bool {
											if k == m {
												return true
											}
											if _, ok := k.(*ast.FuncLit); ok {
												return false
											}
											return true
										})
										// a break inside a switch leaves the switch, not the loop: walk with inner = true
										var body *ast.BlockStmt
										switch y := m.(type) {
										case *ast.SwitchStmt:
											body = y.Body
										case *ast.TypeSwitchStmt:
											body = y.Body
										case *ast.SelectStmt:
											body = y.Body
										}
										walk(body, true)
										depth--
										return false
									}
								case *ast.AssignStmt:
									cur = x.Pos()
									if len(x.Lhs) == 1 && len(x.Rhs) == 1 {
										if c, ok := x.Rhs[0].(*ast.CallExpr); ok {
											if id, ok := c.Fun.(*ast.Ident); ok && id.Name == "append" {
												add("append", exprText(x.Lhs[0]))
											}
										}
										if x.Tok == token.ADD_ASSIGN && isString(x.Lhs[0]) {
											add("concat", exprText(x.Lhs[0]))
										}
									}
								case *ast.CallExpr:
									if sel, ok := x.Fun.(*ast.SelectorExpr); ok {
										switch sel.Sel.Name {
										case "WriteString", "WriteByte", "WriteRune", "Fprintf", "Fprint", "Fprintln", "Write":
											add("write", sel.Sel.Name)
										}
									}
								case *ast.IfStmt:
									// a choice among the entries: an outer variable takes the entry that
									// compares best so far; entries that compare equal are not ordered
									// unless the condition also says what happens on ==
									rel, eq := false, false
									ast.Inspect(x.Cond, func(k ast.Node) bool {
										if be, ok := k.(*ast.BinaryExpr); ok {
											switch be.Op {
											case token.LSS, token.GTR, token.LEQ, token.GEQ:
												rel = true
											case token.EQL:
												eq = true
											}
										}
										return true
									})
									if rel && !eq {
										for _, st := range x.Body.List {
											if as, ok := st.(*ast.AssignStmt); ok && as.Tok == token.ASSIGN {
												for _, l := range as.Lhs {
													if id, ok := l.(*ast.Ident); ok {
														if obj := tp.info.Uses[id]; obj != nil && obj.Pos() < rs.Pos() {
															cur = as.Pos()
															add("choose", id.Name)
														}
													}
												}
											}
										}
									}
								case *ast.ReturnStmt:
									add("early", "return")
								case *ast.BranchStmt:
									if x.Tok == token.BREAK && (!inner || x.Label != nil) {
										add("early", "break")
									}
								}
								return true
							})
						}
						walk(rs.Body, false)
						// appended slices sorted later in the function are fine
						var keys []string
						for k := range here {
							keys = append(keys, k)
						}
						sort.Strings(keys)
						for _, k := range keys {
							parts := strings.SplitN(k, " ", 2)
							if parts[0] == "append" {
								sorted := false
								ast.Inspect(fd.Body, func(m ast.Node) bool {
									if c, ok := m.(*ast.CallExpr); ok && c.Pos() > firstPos[k] && isSortCall(c) && mentions(c, parts[1]) {
										sorted = true
									}
									return !sorted
								})
								if sorted {
									continue
								}
							}
							sinks = append(sinks, fmt.Sprintf("%s.%s: %s %s", tp.pkg, fname, parts[0], parts[1]))
						}
						return true
					})
				}
			}
			// aliased package-level reference values
			refGlobals := map[types.Object]string{}
			for _, f := range tp.files {
				for _, d := range f.Decls {
					if gd, ok := d.(*ast.GenDecl); ok && gd.Tok == token.VAR {
						for _, sp := range gd.Specs {
							for _, n := range sp.(*ast.ValueSpec).Names {
								obj := tp.info.Defs[n]
								if obj == nil || n.Name == "_" {
									continue
								}
								switch obj.Type().Underlying().(type) {
								case *types.Map, *types.Slice, *types.Pointer:
									refGlobals[obj] = n.Name
								}
							}
						}
					}
				}
			}
			seen := map[string]bool{}
			isRef := func(t types.Type) bool {
				if t == nil {
					return false
				}
				switch t.Underlying().(type) {
				case *types.Map, *types.Slice, *types.Pointer:
					return true
				}
				return false
			}
			// locals that hold an element of a package-level map or slice (itself a map, slice or pointer)
			derived := map[types.Object]string{}
			elemOf := func(e ast.Expr) (string, bool) {
				if ix, ok := e.(*ast.IndexExpr); ok {
					if id, ok := ix.X.(*ast.Ident); ok {
						if name, ok := refGlobals[tp.info.Uses[id]]; ok {
							return name, true
						}
					}
				}
				return "", false
			}
			for _, f := range tp.files {
				ast.Inspect(f, func(n ast.Node) bool {
					switch x := n.(type) {
					case *ast.AssignStmt:
						if x.Tok == token.DEFINE && len(x.Rhs) == 1 {
							if name, ok := elemOf(x.Rhs[0]); ok {
								if id, ok := x.Lhs[0].(*ast.Ident); ok && tp.info.Defs[id] != nil && isRef(tp.info.Defs[id].Type()) {
									derived[tp.info.Defs[id]] = name + "[]"
								}
							}
						}
					case *ast.RangeStmt:
						if id, ok := x.X.(*ast.Ident); ok && x.Tok == token.DEFINE {
							if name, ok := refGlobals[tp.info.Uses[id]]; ok {
								if v, ok := x.Value.(*ast.Ident); ok && tp.info.Defs[v] != nil && isRef(tp.info.Defs[v].Type()) {
									derived[tp.info.Defs[v]] = name + "[]"
								}
							}
						}
					}
					return true
				})
			}
			note := func(e ast.Expr, how string) {
				if name, ok := elemOf(e); ok {
					if tv, ok := tp.info.Types[e]; ok && isRef(tv.Type) {
						seen[tp.pkg+"."+name+"[] ("+how+")"] = true
					}
					return
				}
				id, ok := e.(*ast.Ident)
				if !ok {
					return
				}
				if name, ok := refGlobals[tp.info.Uses[id]]; ok {
					seen[tp.pkg+"."+name+" ("+how+")"] = true
				}
				if name, ok := derived[tp.info.Uses[id]]; ok {
					seen[tp.pkg+"."+name+" ("+how+")"] = true
				}
			}
			for _, f := range tp.files {
				for _, d := range f.Decls {
					fd, ok := d.(*ast.FuncDecl)
					if !ok || fd.Body == nil || (fd.Recv == nil && fd.Name.Name == "init") {
						continue
					}
					ast.Inspect(fd.Body, func(n ast.Node) bool {
						switch x := n.(type) {
						case *ast.AssignStmt:
							for _, r := range x.Rhs {
								note(r, "assigned")
							}
						case *ast.ValueSpec:
							for _, r := range x.Values {
								note(r, "assigned")
							}
						case *ast.CompositeLit:
							for _, el := range x.Elts {
								if kv, ok := el.(*ast.KeyValueExpr); ok {
									note(kv.Value, "stored")
								} else {
									note(el, "stored")
								}
							}
						case *ast.ReturnStmt:
							for _, r := range x.Results {
								note(r, "returned")
							}
						}
						return true
					})
				}
			}
			for k := range seen {
				aliased = append(aliased, k)
			}
		}
		sort.Strings(sinks)
		sort.Strings(aliased)
		var b strings.Builder
		emitList := func(name string, l []string) {
			fmt.Fprintf(&b, "Definition %s : list string := [", name)
			for i, s := range l {
				if i > 0 {
					b.WriteString(";")
				}
				fmt.Fprintf(&b, "\n  \"%s\"%%string", s)
			}
			b.WriteString("].\n")
		}
		fmt.Fprintf(&b, "Definition loops_over_maps : nat := %d.\n", nloops)
		emitList("map_order_sinks", sinks)
		emitList("aliased_globals", aliased)
		emit("GenMapOrder.v", b.String())
	}
}
