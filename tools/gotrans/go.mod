module gotrans

go 1.18
