// gotrans regenerates the Coq files under coq/gen from /repo's current Go
// sources.  It is a translator for a deliberately small fragment of Go:
//   - boolean predicates over one byte/rune parameter (comparisons with
//     character/integer literals, && || !, calls of other such predicates);
//   - "switch { case cond: return expr, nil ... default: return 0, err }"
//     functions from a byte to (byte, error)  ->  N -> option N;
//   - "switch name { case "A", "B": ... }" string dispatch, classified by the
//     first call / return shape of each clause;
//   - [256]rune composite literals;
//   - struct-literal defaults returned by a constructor (numeric / bool fields);
//   - string-keyed map literals and slices of string literals;
//   - the inventory of package-level variables written outside init.
//
// Anything outside the fragment makes gotrans fail (exit 2): a broken
// obligation, reported by ./check as such.
package main

import (
	"fmt"
	"go/ast"
	"go/parser"
	"go/token"
	"os"
	"path/filepath"
	"sort"
	"strconv"
	"strings"
)

var repo = "/repo"
var outDir = "/verif/coq/gen"

type pkgFiles struct {
	fset  *token.FileSet
	files []*ast.File
}

var pkgCache = map[string]*pkgFiles{}

func loadPkg(dir string) *pkgFiles {
	if p, ok := pkgCache[dir]; ok {
		return p
	}
	fset := token.NewFileSet()
	ents, err := os.ReadDir(filepath.Join(repo, dir))
	if err != nil {
		fail("read dir %s: %v", dir, err)
	}
	p := &pkgFiles{fset: fset}
	for _, e := range ents {
		n := e.Name()
		if e.IsDir() || !strings.HasSuffix(n, ".go") || strings.HasSuffix(n, "_test.go") {
			continue
		}
		f, err := parser.ParseFile(fset, filepath.Join(repo, dir, n), nil, parser.ParseComments)
		if err != nil {
			fail("parse %s/%s: %v", dir, n, err)
		}
		// skip verif-tagged hook files
		skip := false
		for _, cg := range f.Comments {
			if cg.Pos() < f.Package && strings.Contains(cg.Text(), "go:build verif") {
				skip = true
			}
		}
		if skip {
			continue
		}
		p.files = append(p.files, f)
	}
	pkgCache[dir] = p
	return p
}

func findFunc(dir, name string) *ast.FuncDecl {
	p := loadPkg(dir)
	for _, f := range p.files {
		for _, d := range f.Decls {
			if fd, ok := d.(*ast.FuncDecl); ok && fd.Name.Name == name && fd.Recv == nil {
				return fd
			}
		}
	}
	fail("function %s.%s not found", dir, name)
	return nil
}

func findMethod(dir, recv, name string) *ast.FuncDecl {
	p := loadPkg(dir)
	for _, f := range p.files {
		for _, d := range f.Decls {
			fd, ok := d.(*ast.FuncDecl)
			if !ok || fd.Name.Name != name || fd.Recv == nil || len(fd.Recv.List) == 0 {
				continue
			}
			t := fd.Recv.List[0].Type
			if st, ok := t.(*ast.StarExpr); ok {
				t = st.X
			}
			if id, ok := t.(*ast.Ident); ok && id.Name == recv {
				return fd
			}
		}
	}
	fail("method %s.(%s).%s not found", dir, recv, name)
	return nil
}

func findVar(dir, name string) ast.Expr {
	p := loadPkg(dir)
	for _, f := range p.files {
		for _, d := range f.Decls {
			gd, ok := d.(*ast.GenDecl)
			if !ok || (gd.Tok != token.VAR && gd.Tok != token.CONST) {
				continue
			}
			for _, s := range gd.Specs {
				vs := s.(*ast.ValueSpec)
				for i, n := range vs.Names {
					if n.Name == name && i < len(vs.Values) {
						return vs.Values[i]
					}
				}
			}
		}
	}
	fail("var %s.%s not found", dir, name)
	return nil
}

func fail(format string, a ...interface{}) {
	fmt.Fprintf(os.Stderr, "gotrans: "+format+"\n", a...)
	os.Exit(2)
}

// ---------- literals

func litInt(e ast.Expr) (int64, bool) {
	switch v := e.(type) {
	case *ast.BasicLit:
		switch v.Kind {
		case token.INT:
			n, err := strconv.ParseInt(v.Value, 0, 64)
			if err != nil {
				return 0, false
			}
			return n, true
		case token.CHAR:
			s, err := strconv.Unquote(v.Value)
			if err != nil {
				return 0, false
			}
			r := []rune(s)
			if len(r) != 1 {
				return 0, false
			}
			return int64(r[0]), true
		}
	case *ast.ParenExpr:
		return litInt(v.X)
	case *ast.UnaryExpr:
		if v.Op == token.SUB {
			n, ok := litInt(v.X)
			return -n, ok
		}
	case *ast.CallExpr:
		// rune(0x..), byte('a')
		if id, ok := v.Fun.(*ast.Ident); ok && len(v.Args) == 1 &&
			(id.Name == "rune" || id.Name == "byte" || id.Name == "int") {
			return litInt(v.Args[0])
		}
	}
	return 0, false
}

func litString(e ast.Expr) (string, bool) {
	if bl, ok := e.(*ast.BasicLit); ok && bl.Kind == token.STRING {
		s, err := strconv.Unquote(bl.Value)
		if err == nil {
			return s, true
		}
	}
	return "", false
}

func coqBytes(s string) string {
	var b strings.Builder
	b.WriteString("[")
	for i := 0; i < len(s); i++ {
		if i > 0 {
			b.WriteString("; ")
		}
		fmt.Fprintf(&b, "%d", s[i])
	}
	b.WriteString("]%N")
	return b.String()
}

// ---------- boolean predicates over one variable

type predCtx struct {
	v      string            // Go parameter name
	prefix string            // Coq name prefix for called predicates
	known  map[string]string // Go predicate name -> Coq name
}

func (c *predCtx) term(e ast.Expr) (string, bool) {
	if id, ok := e.(*ast.Ident); ok && id.Name == c.v {
		return "c", true
	}
	if n, ok := litInt(e); ok && n >= 0 {
		return fmt.Sprintf("%d", n), true
	}
	if call, ok := e.(*ast.CallExpr); ok && len(call.Args) == 1 {
		if id, ok := call.Fun.(*ast.Ident); ok && (id.Name == "rune" || id.Name == "byte" || id.Name == "int") {
			return c.term(call.Args[0])
		}
	}
	return "", false
}

func (c *predCtx) boolExpr(e ast.Expr) string {
	switch v := e.(type) {
	case *ast.ParenExpr:
		return c.boolExpr(v.X)
	case *ast.UnaryExpr:
		if v.Op == token.NOT {
			return "(negb " + c.boolExpr(v.X) + ")"
		}
	case *ast.BinaryExpr:
		switch v.Op {
		case token.LAND:
			return "(" + c.boolExpr(v.X) + " && " + c.boolExpr(v.Y) + ")"
		case token.LOR:
			return "(" + c.boolExpr(v.X) + " || " + c.boolExpr(v.Y) + ")"
		}
		l, ok1 := c.term(v.X)
		r, ok2 := c.term(v.Y)
		if ok1 && ok2 {
			switch v.Op {
			case token.EQL:
				return "(" + l + " =? " + r + ")"
			case token.NEQ:
				return "(negb (" + l + " =? " + r + "))"
			case token.LSS:
				return "(" + l + " <? " + r + ")"
			case token.LEQ:
				return "(" + l + " <=? " + r + ")"
			case token.GTR:
				return "(" + r + " <? " + l + ")"
			case token.GEQ:
				return "(" + r + " <=? " + l + ")"
			}
		}
	case *ast.CallExpr:
		if id, ok := v.Fun.(*ast.Ident); ok && len(v.Args) == 1 {
			if a, ok := c.term(v.Args[0]); ok && a == "c" {
				if cn, ok := c.known[id.Name]; ok {
					return "(" + cn + " c)"
				}
			}
		}
	case *ast.Ident:
		if v.Name == "true" {
			return "true"
		}
		if v.Name == "false" {
			return "false"
		}
	}
	fail("unsupported boolean expression at %v (%T)", e.Pos(), e)
	return ""
}

// predicate function: single statement "return <boolexpr>", or
// "switch c { case a, b: return true } return false" forms.
func transPredicate(dir, goName, coqName string, known map[string]string) string {
	fd := findFunc(dir, goName)
	if len(fd.Type.Params.List) != 1 || len(fd.Type.Params.List[0].Names) != 1 {
		fail("%s.%s: expected one parameter", dir, goName)
	}
	ctx := &predCtx{v: fd.Type.Params.List[0].Names[0].Name, known: known}
	body := fd.Body.List
	var expr string
	switch {
	case len(body) == 1:
		rs, ok := body[0].(*ast.ReturnStmt)
		if !ok || len(rs.Results) != 1 {
			fail("%s.%s: expected a single return", dir, goName)
		}
		expr = ctx.boolExpr(rs.Results[0])
	case len(body) == 2:
		// switch c { case 'a','b': return true }; return false
		sw, ok := body[0].(*ast.SwitchStmt)
		rs, ok2 := body[1].(*ast.ReturnStmt)
		if !ok || !ok2 || len(rs.Results) != 1 {
			fail("%s.%s: unsupported two-statement shape", dir, goName)
		}
		def := ctx.boolExpr(rs.Results[0])
		expr = def
		clauses := sw.Body.List
		for i := len(clauses) - 1; i >= 0; i-- {
			cc := clauses[i].(*ast.CaseClause)
			if len(cc.Body) != 1 {
				fail("%s.%s: case body shape", dir, goName)
			}
			crs, ok := cc.Body[0].(*ast.ReturnStmt)
			if !ok || len(crs.Results) != 1 {
				fail("%s.%s: case body shape", dir, goName)
			}
			val := ctx.boolExpr(crs.Results[0])
			if cc.List == nil {
				expr = val
				continue
			}
			var conds []string
			for _, ce := range cc.List {
				if sw.Tag != nil {
					t, ok := ctx.term(ce)
					if !ok {
						fail("%s.%s: case literal", dir, goName)
					}
					conds = append(conds, "(c =? "+t+")")
				} else {
					conds = append(conds, ctx.boolExpr(ce))
				}
			}
			expr = "(if " + strings.Join(conds, " || ") + " then " + val + " else " + expr + ")"
		}
	default:
		fail("%s.%s: unsupported predicate body (%d statements)", dir, goName, len(body))
	}
	return fmt.Sprintf("Definition %s (c : N) : bool := %s.\n", coqName, expr)
}

// byte -> (byte, error) via tagless switch with "return <arith>, nil" clauses.
func transDigitFunc(dir, goName, coqName string) string {
	fd := findFunc(dir, goName)
	v := fd.Type.Params.List[0].Names[0].Name
	ctx := &predCtx{v: v}
	if len(fd.Body.List) != 1 {
		fail("%s.%s: expected one switch", dir, goName)
	}
	sw, ok := fd.Body.List[0].(*ast.SwitchStmt)
	if !ok || sw.Tag != nil {
		fail("%s.%s: expected tagless switch", dir, goName)
	}
	expr := "None"
	clauses := sw.Body.List
	for i := len(clauses) - 1; i >= 0; i-- {
		cc := clauses[i].(*ast.CaseClause)
		rs, ok := cc.Body[0].(*ast.ReturnStmt)
		if !ok || len(cc.Body) != 1 || len(rs.Results) < 1 {
			fail("%s.%s: clause shape", dir, goName)
		}
		var val string
		if len(rs.Results) == 2 {
			if id, ok := rs.Results[1].(*ast.Ident); ok && id.Name == "nil" {
				val = "Some " + ctx.arith(rs.Results[0])
			} else {
				val = "None"
			}
		} else {
			val = "Some " + ctx.arith(rs.Results[0])
		}
		if cc.List == nil {
			expr = val
			continue
		}
		var conds []string
		for _, ce := range cc.List {
			conds = append(conds, ctx.boolExpr(ce))
		}
		expr = "(if " + strings.Join(conds, " || ") + " then " + val + " else " + expr + ")"
	}
	return fmt.Sprintf("Definition %s (c : N) : option N := %s.\n", coqName, expr)
}

// arithmetic on the byte variable with literals: c - '0', c - 'A' + 10.
// N subtraction truncates, which agrees with Go only when the guard ensures
// c >= literal; the clauses translated here are all of that form.
func (c *predCtx) arith(e ast.Expr) string {
	if t, ok := c.term(e); ok {
		return t
	}
	switch v := e.(type) {
	case *ast.ParenExpr:
		return c.arith(v.X)
	case *ast.CallExpr:
		if id, ok := v.Fun.(*ast.Ident); ok && len(v.Args) == 1 && (id.Name == "int" || id.Name == "byte") {
			return c.arith(v.Args[0])
		}
	case *ast.BinaryExpr:
		switch v.Op {
		case token.ADD:
			return "(" + c.arith(v.X) + " + " + c.arith(v.Y) + ")"
		case token.SUB:
			return "(" + c.arith(v.X) + " - " + c.arith(v.Y) + ")"
		}
	}
	fail("unsupported arithmetic at %v", e.Pos())
	return ""
}

// ---------- string-switch dispatch

// classify a clause body by its first statement.
func classifyClause(body []ast.Stmt) string {
	for _, st := range body {
		rs, ok := st.(*ast.ReturnStmt)
		if !ok {
			continue
		}
		if len(rs.Results) >= 1 {
			if call, ok := rs.Results[0].(*ast.CallExpr); ok {
				switch f := call.Fun.(type) {
				case *ast.SelectorExpr:
					return f.Sel.Name
				case *ast.Ident:
					return f.Name
				}
			}
			if id, ok := rs.Results[0].(*ast.Ident); ok {
				if id.Name == "nil" {
					return "error"
				}
				return "ident_" + id.Name
			}
			if s, ok := rs.Results[0].(*ast.SelectorExpr); ok {
				return "sel_" + s.Sel.Name
			}
		}
	}
	return "other"
}

type dispatchEntry struct {
	names []string
	class string
}

func stringSwitch(fd *ast.FuncDecl, tagName string) (entries []dispatchEntry, def string) {
	var sw *ast.SwitchStmt
	ast.Inspect(fd.Body, func(n ast.Node) bool {
		if s, ok := n.(*ast.SwitchStmt); ok && sw == nil {
			if id, ok := s.Tag.(*ast.Ident); ok && id.Name == tagName {
				sw = s
			}
		}
		return true
	})
	if sw == nil {
		fail("%s: no switch on %s", fd.Name.Name, tagName)
	}
	def = "none"
	for _, cl := range sw.Body.List {
		cc := cl.(*ast.CaseClause)
		cls := classifyClause(cc.Body)
		if cc.List == nil {
			def = cls
			continue
		}
		var names []string
		for _, e := range cc.List {
			s, ok := litString(e)
			if !ok {
				fail("%s: non-literal case", fd.Name.Name)
			}
			names = append(names, s)
		}
		entries = append(entries, dispatchEntry{names, cls})
	}
	return
}

// ---------- emit

func emit(name string, body string) {
	path := filepath.Join(outDir, name)
	hdr := "(* GENERATED by tools/gotrans from /repo on every run - do not edit. *)\n" +
		"From Coq Require Import List NArith ZArith Bool String.\nImport ListNotations.\n"
	content := hdr + body
	old, err := os.ReadFile(path)
	if err == nil && string(old) == content {
		return
	}
	os.MkdirAll(filepath.Dir(path), 0o755)
	if err := os.WriteFile(path, []byte(content), 0o644); err != nil {
		fail("write %s: %v", path, err)
	}
}

func sortedKeys(m map[string]string) []string {
	var ks []string
	for k := range m {
		ks = append(ks, k)
	}
	sort.Strings(ks)
	return ks
}

var generators = map[string]func(){}

func main() {
	args := os.Args[1:]
	for len(args) >= 2 && strings.HasPrefix(args[0], "-") {
		switch args[0] {
		case "-repo":
			repo = args[1]
		case "-out":
			outDir = args[1]
		default:
			fail("unknown flag %s", args[0])
		}
		args = args[2:]
	}
	// generators may change the working directory (type checking runs inside the repository)
	if abs, err := filepath.Abs(outDir); err == nil {
		outDir = abs
	}
	if abs, err := filepath.Abs(repo); err == nil {
		repo = abs
	}
	if len(args) == 0 {
		for k := range generators {
			args = append(args, k)
		}
		sort.Strings(args)
	}
	for _, a := range args {
		g, ok := generators[a]
		if !ok {
			fail("unknown generator %s", a)
		}
		g()
	}
}
