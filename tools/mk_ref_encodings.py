#!/usr/bin/env python3
"""Authoring aid for coq/model/C07_RefEncodings.v (the reference tables of C07).

The reference is written from ISO 32000-1 Annex D: for each encoding the glyph
NAMES in code order (as the annex lists them) and, separately, the Adobe Glyph
List value(s) of each name.  Nothing here reads /repo.  Per code the reference
is a list of acceptable code points; 0 means "the code yields no character".
A code the annex leaves undefined accepts: no character, U+FFFD, the identical
C0 control code, and where noted a vendor value (Mac OS Roman symbols, bullet
for unused WinAnsi codes as in the annex footnote)."""
AGL = dict(
 space=[0x20], exclam=[0x21], quotedbl=[0x22], numbersign=[0x23], dollar=[0x24], percent=[0x25], ampersand=[0x26],
 quotesingle=[0x27], parenleft=[0x28], parenright=[0x29], asterisk=[0x2A], plus=[0x2B], comma=[0x2C], hyphen=[0x2D],
 period=[0x2E], slash=[0x2F], colon=[0x3A], semicolon=[0x3B], less=[0x3C], equal=[0x3D], greater=[0x3E], question=[0x3F],
 at=[0x40], bracketleft=[0x5B], backslash=[0x5C], bracketright=[0x5D], asciicircum=[0x5E], underscore=[0x5F], grave=[0x60],
 braceleft=[0x7B], bar=[0x7C], braceright=[0x7D], asciitilde=[0x7E],
 quoteright=[0x2019], quoteleft=[0x2018], exclamdown=[0xA1], cent=[0xA2], sterling=[0xA3], fraction=[0x2044], yen=[0xA5],
 florin=[0x192], section=[0xA7], currency=[0xA4], quotedblleft=[0x201C], guillemotleft=[0xAB], guilsinglleft=[0x2039],
 guilsinglright=[0x203A], fi=[0xFB01], fl=[0xFB02], endash=[0x2013], dagger=[0x2020], daggerdbl=[0x2021],
 periodcentered=[0xB7], paragraph=[0xB6], bullet=[0x2022], quotesinglbase=[0x201A], quotedblbase=[0x201E],
 quotedblright=[0x201D], guillemotright=[0xBB], ellipsis=[0x2026], perthousand=[0x2030], questiondown=[0xBF],
 acute=[0xB4], circumflex=[0x2C6], tilde=[0x2DC], macron=[0xAF], breve=[0x2D8], dotaccent=[0x2D9], dieresis=[0xA8],
 ring=[0x2DA], cedilla=[0xB8], hungarumlaut=[0x2DD], ogonek=[0x2DB], caron=[0x2C7], emdash=[0x2014], AE=[0xC6],
 ordfeminine=[0xAA], Lslash=[0x141], Oslash=[0xD8], OE=[0x152], ordmasculine=[0xBA], ae=[0xE6], dotlessi=[0x131],
 lslash=[0x142], oslash=[0xF8], oe=[0x153], germandbls=[0xDF], Euro=[0x20AC], Scaron=[0x160], Zcaron=[0x17D],
 trademark=[0x2122], scaron=[0x161], zcaron=[0x17E], Ydieresis=[0x178], minus=[0x2212], degree=[0xB0],
 registered=[0xAE], copyright=[0xA9], plusminus=[0xB1], mu=[0xB5, 0x3BC], logicalnot=[0xAC], divide=[0xF7], ydieresis=[0xFF],
 # Symbol
 universal=[0x2200], existential=[0x2203], suchthat=[0x220B], asteriskmath=[0x2217], congruent=[0x2245],
 Alpha=[0x391], Beta=[0x392], Chi=[0x3A7], Delta=[0x2206, 0x394], Epsilon=[0x395], Phi=[0x3A6], Gamma=[0x393], Eta=[0x397],
 Iota=[0x399], theta1=[0x3D1], Kappa=[0x39A], Lambda=[0x39B], Mu=[0x39C], Nu=[0x39D], Omicron=[0x39F], Pi=[0x3A0],
 Theta=[0x398], Rho=[0x3A1], Sigma=[0x3A3], Tau=[0x3A4], Upsilon=[0x3A5], sigma1=[0x3C2], Omega=[0x2126, 0x3A9], Xi=[0x39E],
 Psi=[0x3A8], Zeta=[0x396], therefore=[0x2234], perpendicular=[0x22A5], radicalex=[0xF8E5],
 alpha=[0x3B1], beta=[0x3B2], chi=[0x3C7], delta=[0x3B4], epsilon=[0x3B5], phi=[0x3C6], gamma=[0x3B3], eta=[0x3B7],
 iota=[0x3B9], phi1=[0x3D5], kappa=[0x3BA], **{'lambda': [0x3BB]}, nu=[0x3BD], omicron=[0x3BF], pi=[0x3C0], theta=[0x3B8],
 rho=[0x3C1], sigma=[0x3C3], tau=[0x3C4], upsilon=[0x3C5], omega1=[0x3D6], omega=[0x3C9], xi=[0x3BE], psi=[0x3C8],
 zeta=[0x3B6], similar=[0x223C], Upsilon1=[0x3D2], minute=[0x2032], lessequal=[0x2264], infinity=[0x221E],
 club=[0x2663], diamond=[0x2666], heart=[0x2665], spade=[0x2660], arrowboth=[0x2194], arrowleft=[0x2190],
 arrowup=[0x2191], arrowright=[0x2192], arrowdown=[0x2193], second=[0x2033], greaterequal=[0x2265], multiply=[0xD7],
 proportional=[0x221D], partialdiff=[0x2202], notequal=[0x2260], equivalence=[0x2261], approxequal=[0x2248],
 arrowvertex=[0xF8E6, 0x23D0], arrowhorizex=[0xF8E7, 0x23AF], carriagereturn=[0x21B5], aleph=[0x2135], Ifraktur=[0x2111],
 Rfraktur=[0x211C], weierstrass=[0x2118], circlemultiply=[0x2297], circleplus=[0x2295], emptyset=[0x2205],
 intersection=[0x2229], union=[0x222A], propersuperset=[0x2283], reflexsuperset=[0x2287], notsubset=[0x2284],
 propersubset=[0x2282], reflexsubset=[0x2286], element=[0x2208], notelement=[0x2209], angle=[0x2220], gradient=[0x2207],
 registerserif=[0xF6DA, 0xAE], copyrightserif=[0xF6D9, 0xA9], trademarkserif=[0xF6DB, 0x2122], product=[0x220F],
 radical=[0x221A], dotmath=[0x22C5], logicaland=[0x2227], logicalor=[0x2228], arrowdblboth=[0x21D4],
 arrowdblleft=[0x21D0], arrowdblup=[0x21D1], arrowdblright=[0x21D2], arrowdbldown=[0x21D3], lozenge=[0x25CA],
 angleleft=[0x2329, 0x3008, 0x27E8], registersans=[0xF8E8, 0xAE], copyrightsans=[0xF8E9, 0xA9], trademarksans=[0xF8EA, 0x2122],
 summation=[0x2211], parenlefttp=[0xF8EB, 0x239B], parenleftex=[0xF8EC, 0x239C], parenleftbt=[0xF8ED, 0x239D],
 bracketlefttp=[0xF8EE, 0x23A1], bracketleftex=[0xF8EF, 0x23A2], bracketleftbt=[0xF8F0, 0x23A3],
 bracelefttp=[0xF8F1, 0x23A7], braceleftmid=[0xF8F2, 0x23A8], braceleftbt=[0xF8F3, 0x23A9], braceex=[0xF8F4, 0x23AA],
 angleright=[0x232A, 0x3009, 0x27E9], integral=[0x222B], integraltp=[0x2320], integralex=[0xF8F5, 0x23AE], integralbt=[0x2321],
 parenrighttp=[0xF8F6, 0x239E], parenrightex=[0xF8F7, 0x239F], parenrightbt=[0xF8F8, 0x23A0],
 bracketrighttp=[0xF8F9, 0x23A4], bracketrightex=[0xF8FA, 0x23A5], bracketrightbt=[0xF8FB, 0x23A6],
 bracerighttp=[0xF8FC, 0x23AB], bracerightmid=[0xF8FD, 0x23AC], bracerightbt=[0xF8FE, 0x23AD],
)
for i, n in enumerate("zero one two three four five six seven eight nine".split()):
    AGL[n] = [0x30 + i]
for c in "ABCDEFGHIJKLMNOPQRSTUVWXYZ":
    AGL[c] = [ord(c)]
    AGL[c.lower()] = AGL.get(c.lower(), [ord(c.lower())]) if len(c) == 1 and c.lower() not in ("mu",) else AGL[c.lower()]
# accented Latin letters by composition name -> Latin-1
LAT = {"Adieresis":0xC4,"Aring":0xC5,"Ccedilla":0xC7,"Eacute":0xC9,"Ntilde":0xD1,"Odieresis":0xD6,"Udieresis":0xDC,
 "aacute":0xE1,"agrave":0xE0,"acircumflex":0xE2,"adieresis":0xE4,"atilde":0xE3,"aring":0xE5,"ccedilla":0xE7,
 "eacute":0xE9,"egrave":0xE8,"ecircumflex":0xEA,"edieresis":0xEB,"iacute":0xED,"igrave":0xEC,"icircumflex":0xEE,
 "idieresis":0xEF,"ntilde":0xF1,"oacute":0xF3,"ograve":0xF2,"ocircumflex":0xF4,"odieresis":0xF6,"otilde":0xF5,
 "uacute":0xFA,"ugrave":0xF9,"ucircumflex":0xFB,"udieresis":0xFC,"Agrave":0xC0,"Atilde":0xC3,"Otilde":0xD5,
 "Acircumflex":0xC2,"Ecircumflex":0xCA,"Aacute":0xC1,"Edieresis":0xCB,"Egrave":0xC8,"Iacute":0xCD,"Icircumflex":0xCE,
 "Idieresis":0xCF,"Igrave":0xCC,"Oacute":0xD3,"Ocircumflex":0xD4,"Ograve":0xD2,"Uacute":0xDA,"Ucircumflex":0xDB,"Ugrave":0xD9}
for k, v in LAT.items():
    AGL[k] = [v]

ASCII_NAMES = ("space exclam quotedbl numbersign dollar percent ampersand %s parenleft parenright asterisk plus comma hyphen "
 "period slash zero one two three four five six seven eight nine colon semicolon less equal greater question at "
 "A B C D E F G H I J K L M N O P Q R S T U V W X Y Z bracketleft backslash bracketright asciicircum underscore %s "
 "a b c d e f g h i j k l m n o p q r s t u v w x y z braceleft bar braceright asciitilde")

def undefined(code, extra=()):
    acc = [0, 0xFFFD] + list(extra)
    if code < 0x20 or code == 0x7F:
        acc.append(code)
    return acc

def table(assign, extra=None):
    """assign: {code: name or int or list}; extra: {code: [vendor values]} for undefined codes"""
    out = []
    for code in range(256):
        if code in assign:
            v = assign[code]
            if isinstance(v, str):
                v = AGL[v]
            elif isinstance(v, int):
                v = [v]
            out.append(list(v))
        else:
            out.append(undefined(code, (extra or {}).get(code, ())))
    return out

def seq(start, names):
    return {start + i: n for i, n in enumerate(names.split()) if n != "-"}

# ---- StandardEncoding (Annex D.2, column STD)
std = seq(0x20, ASCII_NAMES % ("quoteright", "quoteleft"))
std.update(seq(0xA1, "exclamdown cent sterling fraction yen florin section currency quotesingle quotedblleft guillemotleft "
                     "guilsinglleft guilsinglright fi fl - endash dagger daggerdbl periodcentered - paragraph bullet quotesinglbase "
                     "quotedblbase quotedblright guillemotright ellipsis perthousand - questiondown - grave acute circumflex tilde "
                     "macron breve dotaccent dieresis - ring cedilla - hungarumlaut ogonek caron emdash"))
std.update({0xE1: "AE", 0xE3: "ordfeminine", 0xE8: "Lslash", 0xE9: "Oslash", 0xEA: "OE", 0xEB: "ordmasculine",
            0xF1: "ae", 0xF5: "dotlessi", 0xF8: "lslash", 0xF9: "oslash", 0xFA: "oe", 0xFB: "germandbls"})
# ---- WinAnsiEncoding (column WIN); 0xA0 space, 0xAD hyphen; unused codes may show a bullet (annex footnote)
win = seq(0x20, ASCII_NAMES % ("quotesingle", "grave"))
win.update(seq(0x80, "Euro - quotesinglbase florin quotedblbase ellipsis dagger daggerdbl circumflex perthousand Scaron "
                     "guilsinglleft OE - Zcaron - - quoteleft quoteright quotedblleft quotedblright bullet endash emdash tilde "
                     "trademark scaron guilsinglright oe - zcaron Ydieresis"))
for c in range(0xA1, 0x100):
    win[c] = c
win[0xA0] = [0xA0, 0x20]
win[0xAD] = [0xAD, 0x2D]
win_extra = {c: [0x2022] for c in (0x7F, 0x81, 0x8D, 0x8F, 0x90, 0x9D)}
# ---- MacRomanEncoding (column MAC); undefined codes may carry the Mac OS Roman symbol
mac = seq(0x20, ASCII_NAMES % ("quotesingle", "grave"))
mac.update(seq(0x80, "Adieresis Aring Ccedilla Eacute Ntilde Odieresis Udieresis aacute agrave acircumflex adieresis atilde "
                     "aring ccedilla eacute egrave ecircumflex edieresis iacute igrave icircumflex idieresis ntilde oacute "
                     "ograve ocircumflex odieresis otilde uacute ugrave ucircumflex udieresis dagger degree cent sterling "
                     "section bullet paragraph germandbls registered copyright trademark acute dieresis - AE Oslash - plusminus "
                     "- - yen mu - - - - - ordfeminine ordmasculine - ae oslash questiondown exclamdown logicalnot - florin - - "
                     "guillemotleft guillemotright ellipsis space Agrave Atilde Otilde OE oe endash emdash quotedblleft "
                     "quotedblright quoteleft quoteright divide - ydieresis Ydieresis fraction currency guilsinglleft "
                     "guilsinglright fi fl daggerdbl periodcentered quotesinglbase quotedblbase perthousand Acircumflex "
                     "Ecircumflex Aacute Edieresis Egrave Iacute Icircumflex Idieresis Igrave Oacute Ocircumflex - Ograve Uacute "
                     "Ucircumflex Ugrave dotlessi circumflex tilde macron breve dotaccent ring cedilla hungarumlaut ogonek caron"))
mac[0xCA] = [0xA0, 0x20]
mac_extra = {0xAD: [0x2260], 0xB0: [0x221E], 0xB2: [0x2264], 0xB3: [0x2265], 0xB6: [0x2202], 0xB7: [0x2211], 0xB8: [0x220F],
             0xB9: [0x3C0], 0xBA: [0x222B], 0xBD: [0x3A9, 0x2126], 0xC3: [0x221A], 0xC5: [0x2248], 0xC6: [0x2206, 0x394],
             0xD7: [0x25CA], 0xF0: [0xF8FF]}
# ---- PDFDocEncoding (Annex D.3)
pdf = seq(0x20, ASCII_NAMES % ("quotesingle", "grave"))
pdf.update({0x09: 0x09, 0x0A: 0x0A, 0x0D: 0x0D})
pdf.update(seq(0x18, "breve caron circumflex dotaccent hungarumlaut ogonek ring tilde"))
pdf.update(seq(0x80, "bullet dagger daggerdbl ellipsis emdash endash florin fraction guilsinglleft guilsinglright minus "
                     "perthousand quotedblbase quotedblleft quotedblright quoteleft quoteright quotesinglbase trademark fi fl "
                     "Lslash OE Scaron Ydieresis Zcaron dotlessi lslash oe scaron zcaron - Euro"))
for c in range(0xA1, 0x100):
    if c != 0xAD:
        pdf[c] = c
# ---- Symbol (Annex D.5)
sym = seq(0x20, "space exclam universal numbersign existential percent ampersand suchthat parenleft parenright asteriskmath plus "
                "comma minus period slash zero one two three four five six seven eight nine colon semicolon less equal greater "
                "question congruent Alpha Beta Chi Delta Epsilon Phi Gamma Eta Iota theta1 Kappa Lambda Mu Nu Omicron Pi Theta Rho "
                "Sigma Tau Upsilon sigma1 Omega Xi Psi Zeta bracketleft therefore bracketright perpendicular underscore radicalex "
                "alpha beta chi delta epsilon phi gamma eta iota phi1 kappa lambda mu nu omicron pi theta rho sigma tau upsilon "
                "omega1 omega xi psi zeta braceleft bar braceright similar")
sym.update(seq(0xA0, "Euro Upsilon1 minute lessequal fraction infinity florin club diamond heart spade arrowboth arrowleft arrowup "
                     "arrowright arrowdown degree plusminus second greaterequal multiply proportional partialdiff bullet divide "
                     "notequal equivalence approxequal ellipsis arrowvertex arrowhorizex carriagereturn aleph Ifraktur Rfraktur "
                     "weierstrass circlemultiply circleplus emptyset intersection union propersuperset reflexsuperset notsubset "
                     "propersubset reflexsubset element notelement angle gradient registerserif copyrightserif trademarkserif "
                     "product radical dotmath logicalnot logicaland logicalor arrowdblboth arrowdblleft arrowdblup arrowdblright "
                     "arrowdbldown lozenge angleleft registersans copyrightsans trademarksans summation parenlefttp parenleftex "
                     "parenleftbt bracketlefttp bracketleftex bracketleftbt bracelefttp braceleftmid braceleftbt braceex - "
                     "angleright integral integraltp integralex integralbt parenrighttp parenrightex parenrightbt bracketrighttp "
                     "bracketrightex bracketrightbt bracerighttp bracerightmid bracerightbt"))
sym_mu = sym[0x6D]
sym_extra = {0xF0: [0xF8FF]}
# ---- ZapfDingbats (Annex D.6): the Unicode Dingbats block was laid out after it
zap = {0x20: 0x20}
for c in range(0x21, 0x7F):
    zap[c] = 0x2701 + (c - 0x21)
zap.update({0x25: 0x260E, 0x2A: 0x261B, 0x2B: 0x261E, 0x48: 0x2605, 0x6C: 0x25CF, 0x6E: 0x25A0, 0x73: 0x25B2, 0x74: 0x25BC,
            0x75: 0x25C6, 0x77: 0x25D7})
for c in range(0x80, 0x8E):
    zap[c] = 0x2768 + (c - 0x80)
for c in range(0xA1, 0xA8):
    zap[c] = 0x2761 + (c - 0xA1)
zap.update({0xA8: 0x2663, 0xA9: 0x2666, 0xAA: 0x2665, 0xAB: 0x2660})
for c in range(0xAC, 0xB6):
    zap[c] = 0x2460 + (c - 0xAC)
for c in range(0xB6, 0xD5):
    zap[c] = 0x2776 + (c - 0xB6)
zap.update({0xD5: 0x2192, 0xD6: 0x2194, 0xD7: 0x2195})
for c in range(0xD8, 0xF0):
    zap[c] = 0x2798 + (c - 0xD8)
for c in range(0xF1, 0xFF):
    zap[c] = 0x27B1 + (c - 0xF1)

def emit(name, t):
    rows = []
    for i in range(0, 256, 8):
        rows.append("  " + "; ".join("[" + "; ".join(str(v) for v in cell) + "]" for cell in t[i:i + 8]))
    return "Definition ref_%s : list (list Z) := [\n%s].\n" % (name, ";\n".join(rows))

out = ["(* C07 reference tables: per encoding and code the acceptable code points (0 = no character).",
       "   Written from ISO 32000-1 Annex D glyph names and the Adobe Glyph List by tools/mk_ref_encodings.py;",
       "   independent of /repo.  See that script for the glyph names in code order. *)",
       "From Coq Require Import List ZArith.", "Import ListNotations.", "Open Scope Z_scope.", ""]
out.append(emit("standard", table(std)))
out.append(emit("winansi", table(win, win_extra)))
out.append(emit("macroman", table(mac, mac_extra)))
out.append(emit("pdfdoc", table(pdf)))
out.append(emit("symbol", table(sym, sym_extra)))
out.append(emit("zapfdingbats", table(zap)))
open("/verif/coq/model/C07_RefEncodings.v", "w").write("\n".join(out))
# the same reference for the harness (so that a table that deviates is reported with the code)
def goemit(name, t):
    rows = ["\t\"%s\": {" % name]
    for i in range(0, 256, 8):
        rows.append("\t\t" + " ".join("{" + ", ".join("0x%X" % v for v in cell) + "}," for cell in t[i:i + 8]))
    rows.append("\t},")
    return "\n".join(rows)
go = ["// Code generated by tools/mk_ref_encodings.py from the Annex D glyph names; DO NOT EDIT.", "", "package main", "",
      "// c07Ref: per encoding and code the acceptable code points (0 = no character).", "var c07Ref = map[string][256][]rune{"]
for nm, t in (("StandardEncoding", table(std)), ("WinAnsiEncoding", table(win, win_extra)), ("MacRomanEncoding", table(mac, mac_extra)),
              ("PDFDocEncoding", table(pdf)), ("SymbolEncoding", table(sym, sym_extra)), ("ZapfDingbatsEncoding", table(zap))):
    go.append(goemit(nm, t))
go.append("}")
open("/verif/harness/c07_ref.go", "w").write("\n".join(go) + "\n")
print("written")
