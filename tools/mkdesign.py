#!/usr/bin/env python3
"""mkdesign.py: DESIGN.md = docs/design_head.md + section 5 generated from the tree + docs/design_tail.md"""
import json, re, glob, os, sys
os.chdir('/verif')
sys.path.insert(0, 'lib')
from propconf import PROPS
props = [json.loads(l) for l in open('properties.jsonl')]
man = json.load(open('MANIFEST.json'))
checks = {c['property_id']: c for c in man['checks']}
kf = json.load(open('known_findings.json'))['findings']
results = json.load(open('seeded/RESULTS.json')) if os.path.exists('seeded/RESULTS.json') else {}
nth = sum(len(re.findall(r'^Theorem ', open(f).read(), re.M)) for f in glob.glob('coq/props/C*.v'))
out = [open('docs/design_head.md').read().replace('{{NTHEOREMS}}', str(nth))]
for p in props:
    pid = p['id']
    out.append('### %s - %s\n' % (pid, p['title']))
    c = checks.get(pid)
    if c:
        lc = c['level_claimed']
        out.append('**Level.** %s%s\n' % (lc if isinstance(lc, str) else lc.get('text', ''), ' - ' + c['level_note'] if c.get('level_note') else ''))
    conf = PROPS.get(pid, {})
    models = sorted(glob.glob('coq/model/%s_*.v' % pid)); proofs = sorted(glob.glob('coq/proofs/%s_*.v' % pid))
    lines = sum(len(open(f).read().splitlines()) for f in models + proofs)
    out.append('**Files.** model %s; proofs %s (%d lines); harness `harness/%s.go`%s.\n' % (
        ', '.join('`%s`' % os.path.basename(f) for f in models), ', '.join('`%s`' % os.path.basename(f) for f in proofs), lines, pid.lower(),
        '; regenerated from source: %s' % ', '.join('`gen/%s`' % g for g in conf.get('gen', [])) if conf.get('gen') else ''))
    src = open('coq/props/%s.v' % pid).read() if os.path.exists('coq/props/%s.v' % pid) else ''
    names = re.findall(r'^Theorem (\w+)', src, re.M)
    out.append('**Theorems (%d, all closed under the global context).** %s\n' % (len(names), ', '.join('`%s`' % n.replace(pid + '_', '', 1) for n in names)))
    if conf.get('trusted'):
        out.append('**Modelled, tied, trusted.**\n')
        for t in conf['trusted']:
            out.append('- ' + t)
        for a in conf.get('assumptions', []):
            out.append('- assumption: ' + a)
        out.append('')
    fixed = [f for f in kf if f['property'] == pid and f['status'] == 'fixed']
    known = [f for f in kf if f['property'] == pid and f['status'] == 'known']
    if fixed:
        out.append('**Defects found on the pinned tree and repaired (%d `fix:` commits).**\n' % len(fixed))
        for f in fixed:
            w = re.sub(r'^fixed: property=%s\s*' % pid, '', f['what'])
            out.append('- `%s` %s' % (f.get('commit', ''), w if not w.startswith(f.get('commit', '~')) else w[len(f['commit']):].strip()))
        out.append('')
    if known:
        out.append('**Known findings.** ' + '; '.join('`%s`' % ', '.join(k['classes'])[:120] for k in known) + ' (section 9).\n')
    seeded = sorted(glob.glob('seeded/%s-*/meta.json' % pid))
    if seeded:
        out.append('**Seeded changes (made by sub-agents that saw only the property text; each compiles and passes the 2876 tests).**\n')
        for s in seeded:
            mid = os.path.basename(os.path.dirname(s))
            m = json.load(open(s))
            r = results.get(mid)
            verdict = 'not run'
            if r:
                if r['caught']:
                    verdict = 'caught by: ' + ', '.join(r['classes'][:8])
                    if r['violations'] and r['without_failing_input'] == r['violations']:
                        verdict += ' (no failing input found)'
                else:
                    verdict = 'MISSED'
            note = m.get('strengthened', '')
            out.append('- %s: %s -> %s%s' % (mid, m.get('summary', '').strip(), verdict, (' ' + note) if note else ''))
        out.append('')
out.append(open('docs/design_tail.md').read())
open('DESIGN.md', 'w').write('\n'.join(out))
print('DESIGN.md', sum(len(x.splitlines()) for x in out), 'lines')
