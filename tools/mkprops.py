#!/usr/bin/env python3
"""mkprops.py <Cxx> <title> <imports...> -- <proof-module> ... : write coq/props/Cxx.v with the
explicit statement (as printed by Coq) of every `Theorem` of the given proofs modules, each closed by
`exact <lemma>` and followed by Print Assumptions.  Existing Example blocks at the end of the old
file (after the marker line '(* non-vacuity') are preserved."""
import sys,re,subprocess,os
pid=sys.argv[1]; title=sys.argv[2]; rest=sys.argv[3:]
i=rest.index('--'); imports=rest[:i]; mods=rest[i+1:]
os.chdir('/verif/coq')
names=[]
for m in mods:
    src=open('proofs/%s.v'%m).read()
    names+= [(m,n) for n in re.findall(r'^\s*(?:Theorem|Corollary) (\w+)', src, re.M)]
hdr='From Coq Require String.\nImport (notations) String.\nFrom Coq Require Import Permutation.\nFrom Tabula Require Import %s %s.\n'%(' '.join(imports),' '.join('proofs.'+m for m in mods))
tmp=hdr+'Set Printing Width 100000.\nSet Printing Depth 100000.\n'+''.join('Check %s.\n'%n for _,n in names)
open('/tmp/mkprops.v','w').write(tmp)
out=subprocess.run(['coqc','-Q','.','Tabula','/tmp/mkprops.v'],capture_output=True,text=True).stdout
types={}
for blk in re.split(r'\n(?=\w+\n\s+: )', '\n'+out):
    m=re.match(r'\s*(\w+)\n\s+: (.*)', blk, re.S)
    if m: types[m.group(1)]=' '.join(m.group(2).split())
old=''
p='props/%s.v'%pid
tail=''
if os.path.exists(p):
    o=open(p).read()
    k=o.find('(* non-vacuity')
    if k>=0: tail=o[k:]
body=['(* %s - %s\n   Property theorems only: explicit statements, each closed by [exact <lemma>]. *)'%(pid,title),hdr,'Open Scope N_scope.' if '--N' in os.environ.get('MKPROPS_FLAGS','--N') else '','']
for m,n in names:
    if n not in types: sys.exit('no type for '+n)
    body.append('Theorem %s_%s : %s.'%(pid,n,types[n]))
    body.append('Proof. exact %s. Qed.'%n)
    body.append('Print Assumptions %s_%s.\n'%(pid,n))
open(p,'w').write('\n'.join(body)+'\n'+tail)
print(len(names),'theorems')
