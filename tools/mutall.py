#!/usr/bin/env python3
"""mutall.py [Cxx ...]: apply every seeded change under /verif/seeded to /repo in turn, run the
property's quick check, undo, and record what the check reported in seeded/RESULTS.json."""
import json, os, re, subprocess, sys, glob
os.chdir('/verif')
want = set(sys.argv[1:])
res = {}
if os.path.exists('seeded/RESULTS.json'):
    res = json.load(open('seeded/RESULTS.json'))
if subprocess.run(['git', '-C', '/repo', 'diff', '--quiet']).returncode != 0:
    sys.exit('/repo has uncommitted changes')
for d in sorted(glob.glob('seeded/C*-*/')):
    mid = os.path.basename(d.rstrip('/'))
    pid = mid.split('-')[0]
    if want and pid not in want:
        continue
    p = subprocess.run(['tools/mutcheck.sh', pid, os.path.abspath(d + 'patch.diff'), 'quick'], capture_output=True, text=True, encoding='utf-8', errors='replace')
    out = p.stdout
    classes = sorted(set(re.findall(r'^\s+\[([^\]]+)\]', out, re.M)))
    viol = len(re.findall(r'^VIOLATION', out, re.M))
    nf = len(re.findall(r'no-failing-input-found', out))
    m = re.search(r'exit=(\d+)', out)
    res[mid] = dict(exit=int(m.group(1)) if m else -1, violations=viol, without_failing_input=nf, classes=classes[:12],
                    caught=bool(m and m.group(1) == '1' and viol > 0))
    print(mid, res[mid]['caught'], classes[:6], flush=True)
    json.dump(res, open('seeded/RESULTS.json', 'w'), indent=1, sort_keys=True)
