#!/bin/sh
# usage: mutcheck.sh <Cxx> <patch.diff> [tier]  - apply a seeded change to /repo, run the check, undo
pid=$1; diff=$2; tier=${3:-quick}
cd /repo || exit 2
if ! git diff --quiet; then echo "/repo has uncommitted changes"; exit 2; fi
git apply "$diff" || { echo "patch does not apply"; exit 2; }
cd /verif && ./check "$pid" --tier "$tier" > /tmp/mutcheck-$pid.out 2>&1; rc=$?
git -C /repo checkout -- . ; git -C /repo clean -fdq
# the generated model files follow the tree again
[ -x /verif/.work/bin/gotrans ] && /verif/.work/bin/gotrans -repo /repo -out /verif/coq/gen >/dev/null 2>&1
grep -E "^(VIOLATION|KNOWN|C[0-9]+ tier|  \[)" /tmp/mutcheck-$pid.out | cut -c1-260
echo "exit=$rc"
