#!/bin/bash
# dev helper: build everything and run harness+model for one property without proofs
pid=$1; tier=${2:-quick}
export GOFLAGS=-mod=mod GOPROXY=off GOSUMDB=off GOTOOLCHAIN=local
cd /verif/coq && ./mkproject.sh && timeout 600 make -j16 2>&1 | grep -v "^COQ" | tail -5
cd /verif/harness && go build -tags verif -o /verif/.work/bin/vh . || exit 1
mkdir -p /verif/.work/ocaml /verif/.work/$pid && cd /verif/.work/ocaml && coqc -Q /verif/coq Tabula /verif/coq/extract/Extract.v && cp /verif/ocaml/*.ml . && ocamlfind ocamlopt -O3 -w -a model.mli model.ml dispatch.ml driver.ml -o vm || exit 1
cd /verif/.work/$pid && rm -rf tmp && time /verif/.work/bin/vh -tier $tier -seed ${3:-1} -out . $pid && time ../ocaml/vm $pid < cases.txt > model.txt
python3 - <<PY
import json
s=json.load(open('stats.json'));print({k:s[k] for k in ['evaluations','distinct_nontrivial','prop_checks','prop_fails','distribution']})
n=0
for i,(c,g,m) in enumerate(zip(open('cases.txt'),open('go.txt'),open('model.txt'))):
    if g!=m:
        n+=1
        if n<=3: print('MISMATCH',i,'\n case',c.strip()[:1500],'\n go   ',g.strip()[:600],'\n model',m.strip()[:600])
print('mismatches',n)
PY
head -c 1500 prop.txt
